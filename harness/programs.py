"""Expression trees over kingdon's operator table: python source for alg.register, and the JSON
form interpreted by the TLA+ reference (MultivectorRef!EvalTree).

A tree is  ('arg', i) | ('num', value) | (op, [children], params, form)
  form 'infix'  : a * b, a ^ b, a | b, a & b, a >> b, a @ b, a + b, a - b, ~a, -a, a ** n, a / b
  form 'method' : a.gp(b), a.op(b), ..., a.reverse(), a.grade(...), a.dual(), ...
"""
import random
from fractions import Fraction

INFIX = {'gp': '*', 'op': '^', 'ip': '|', 'rp': '&', 'sw': '>>', 'proj': '@', 'add': '+', 'sub': '-', 'div': '/'}
BIN_METHOD = ['gp', 'op', 'ip', 'rp', 'sw', 'proj', 'lc', 'rc', 'sp', 'cp', 'acp', 'add', 'sub', 'div']
UN_PREFIX = {'neg': '-', 'reverse': '~'}
UN_METHOD = ['neg', 'reverse', 'involute', 'conjugate', 'dual', 'undual', 'hodge', 'unhodge',
             'polarity', 'unpolarity', 'normsq', 'inv', 'norm', 'normalized', 'sqrt',
             'outerexp', 'outersin', 'outercos', 'outertan']
# operators whose value the TLA+ reference computes inside a tree (total, scale 1)
TREE_OPS = {'gp', 'op', 'ip', 'lc', 'rc', 'sp', 'rp', 'sw', 'proj', 'add', 'sub', 'neg', 'reverse',
            'involute', 'conjugate', 'grade', 'hodge', 'unhodge', 'unpolarity', 'normsq', 'pow'}
# the grammar C11 lists: inside it a registered function must not raise unless the plain one does
LISTED = set(BIN_METHOD) | set(UN_METHOD) | {'grade', 'pow', 'coef', 'callreg'} - {'sqrt', 'outerexp', 'outersin', 'outercos', 'outertan'}

ARGN = 'abcd'
KIND_FORM = {'hodge': ('dual', 'hodge'), 'unhodge': ('undual', 'hodge'), 'polarity': ('dual', 'polarity'), 'unpolarity': ('undual', 'polarity'),
             'dual': ('dual', 'auto'), 'undual': ('undual', 'auto')}


def src(tree):
    if tree[0] == 'arg':
        return ARGN[tree[1] - 1]
    if tree[0] == 'num':
        v = tree[1]
        return f'({v})' if not isinstance(v, Fraction) else f'(Fraction({v.numerator}, {v.denominator}))'
    op, kids, params, form = tree
    k = [src(c) for c in kids]
    if op == 'grade':
        return f'{k[0]}.grade({", ".join(map(str, params))})'
    if op == 'pow':
        return f'({k[0]} ** {params[0]})'
    if op == 'coef':
        return f'{k[0]}.{params[0]}'
    if op == 'callreg':
        return f'{params[0]}({", ".join(k)})'
    if len(kids) == 2:
        if form == 'infix' and op in INFIX:
            return f'({k[0]} {INFIX[op]} {k[1]})'
        if kids[0][0] == 'num':     # number on the left has no methods: reflected infix form
            return f'({k[0]} {INFIX[op]} {k[1]})'
        return f'{k[0]}.{op}({k[1]})'
    if form == 'infix' and op in UN_PREFIX:
        return f'({UN_PREFIX[op]}{k[0]})'
    if form == 'kind' and op in KIND_FORM:          # x.dual(kind='hodge') etc.: the same operator, spelled through dual()/undual()
        return f"{k[0]}.{KIND_FORM[op][0]}(kind='{KIND_FORM[op][1]}')"
    return f'{k[0]}.{op}()'


def to_json(tree, enc_num):
    if tree[0] == 'arg':
        return {'n': 'arg', 'i': tree[1]}
    if tree[0] == 'num':
        return {'n': 'num', 'v': enc_num(tree[1])}
    op, kids, params, form = tree
    return {'n': op, 'c': [to_json(c, enc_num) for c in kids], 'p': [int(p) for p in params]}


def ops_in(tree):
    if tree[0] in ('arg', 'num'):
        return set()
    s = {tree[0]}
    for c in tree[1]:
        s |= ops_in(c)
    return s


def has_tree_semantics(tree):
    if tree[0] == 'arg':
        return True
    if tree[0] == 'num':
        return isinstance(tree[1], int)
    op, kids, params, form = tree
    if op not in TREE_OPS:
        return False
    if op == 'pow' and params[0] < 0:
        return False
    return all(has_tree_semantics(c) for c in kids)


def number_valued(tree):
    """the subexpression is a plain python number in the plain function (a literal or an accessed coefficient)"""
    return tree[0] == 'num' or (tree[0] not in ('arg', 'num') and tree[0] == 'coef')


def bitwise_on_numbers(tree):
    """an INFIX operator that python also defines on integers (~ ^ | & >> <<) applied to number-valued subexpressions only:
    the plain function computes python's bitwise result, the tape the geometric one (known finding F13)"""
    if tree[0] in ('arg', 'num'):
        return False
    op, kids, params, form = tree
    if form == 'infix' and op in ('reverse', 'op', 'ip', 'rp', 'sw') and all(number_valued(k) for k in kids):
        return True
    return any(bitwise_on_numbers(k) for k in kids)


def _number_beside_other_product(tree):
    if tree[0] in ('arg', 'num'):
        return False
    op, kids, params, form = tree
    if len(kids) == 2 and op not in ('gp', 'add', 'sub', 'div') and any(k[0] == 'num' for k in kids):
        return True
    return any(_number_beside_other_product(k) for k in kids)


def in_listed_grammar(tree):
    # the property lists sums, differences and PRODUCTS with plain numbers and division by a number; a number beside
    # another binary operator (sandwich, projection, inner / outer / regressive product) is "any other use": it may raise
    return ops_in(tree) <= LISTED and not _number_beside_other_product(tree)


def depth(tree):
    if tree[0] in ('arg', 'num'):
        return 0
    return 1 + max(depth(c) for c in tree[1])


def make_function(name, tree, nargs, extra_globals=None):
    code = f'def {name}({", ".join(ARGN[:nargs])}):\n    return {src(tree)}\n'
    g = {'Fraction': Fraction}
    if extra_globals:
        g.update(extra_globals)
    exec(compile(code, f'<program {name}>', 'exec'), g)
    return g[name], code


# -------------------------------------------------------------------------------------------------
# enumeration / sampling of programs
# -------------------------------------------------------------------------------------------------
def leaf_args(nargs):
    return [('arg', i + 1) for i in range(nargs)]


def depth1_programs(nargs, d, numbers=(2, -3)):
    """Every operator form of the README table applied to arguments / numbers (depth 1)."""
    out = []
    A = leaf_args(nargs)
    for op in BIN_METHOD:
        for x in A:
            for y in A:
                out.append((op, [x, y], [], 'method'))
                if op in INFIX:
                    out.append((op, [x, y], [], 'infix'))
    for op in UN_METHOD:
        for x in A:
            out.append((op, [x], [], 'method'))
            if op in UN_PREFIX:
                out.append((op, [x], [], 'infix'))
            if op in KIND_FORM:
                out.append((op, [x], [], 'kind'))
    for x in A:
        for n in numbers:
            for op in ('gp', 'add', 'sub'):
                out.append((op, [('num', n), x], [], 'infix'))      # number on the left (reflected)
                out.append((op, [x, ('num', n)], [], 'infix'))      # number on the right
            out.append(('div', [x, ('num', n)], [], 'infix'))
            for op in ('sw', 'proj', 'ip', 'rp', 'op'):              # (outside the listed grammar: the registered function may raise)
                out.append((op, [('num', n), x], [], 'infix'))
                out.append((op, [x, ('num', n)], [], 'infix'))
        for n in (0, 1, 2, 3, 5, 6, -1, -2):
            out.append(('pow', [x], [n], 'infix'))
        for gs in ([0], [1], [2], [0, 2], [1, 2], list(range(d + 1))):
            if all(g <= d for g in gs):
                out.append(('grade', [x], gs, 'method'))
    return out


def dual_chains(nargs=1, polarity=True):
    """Every dual-like map followed directly by every undual-like map (and the other way round), in method and kind= forms."""
    D = ['dual', 'hodge'] + (['polarity'] if polarity else [])
    U = ['undual', 'unhodge'] + (['unpolarity'] if polarity else [])
    out = []
    for first, second in [(a, b) for a in D for b in U] + [(b, a) for a in D for b in U]:
        for f1 in ('method', 'kind'):
            for f2 in ('method', 'kind'):
                out.append((second, [(first, [('arg', 1)], [], f1)], [], f2))
    return out


def random_program(rng, nargs, d, maxdepth, allow_rational=False, callable_regs=()):
    def gen(depth_left):
        if depth_left == 0 or rng.random() < 0.25:
            return ('arg', rng.randint(1, nargs))
        r = rng.random()
        if r < 0.5:
            ops = ['gp', 'op', 'ip', 'rp', 'sw', 'proj', 'lc', 'rc', 'sp', 'cp', 'acp', 'add', 'sub']
            op = rng.choice(ops)
            return (op, [gen(depth_left - 1), gen(depth_left - 1)], [], rng.choice(['infix', 'method']))
        if r < 0.75:
            ops = ['neg', 'reverse', 'involute', 'conjugate', 'hodge', 'unhodge', 'unpolarity', 'normsq', 'dual', 'undual']
            if allow_rational:
                ops += ['inv']
            return (rng.choice(ops), [gen(depth_left - 1)], [], rng.choice(['infix', 'method', 'kind']))
        if r < 0.85:
            op = rng.choice(['gp', 'add', 'sub'])
            kids = [('num', rng.choice([2, -1, 3])), gen(depth_left - 1)]
            if rng.random() < 0.5:
                kids.reverse()
            return (op, kids, [], 'infix')
        if r < 0.92:
            k = rng.randint(1, d + 1)
            return ('grade', [gen(depth_left - 1)], sorted(rng.sample(range(d + 1), k)), 'method')
        if r < 0.97 or not callable_regs:
            return ('pow', [gen(depth_left - 1)], [rng.choice([0, 1, 2, 3] + ([-1] if allow_rational else []))], 'infix')
        name, n = rng.choice(callable_regs)
        return ('callreg', [gen(depth_left - 1) for _ in range(n)], [name], 'method')
    t = gen(maxdepth)
    if t[0] == 'arg':
        t = ('gp', [t, ('arg', rng.randint(1, nargs))], [], 'infix')
    return t
