"""pytest plugin: record every operator call the repository's OWN test-suite makes, so that TLC can
evaluate the reference semantics at every call those tests make -- not only where a test asserts.

    cd $KINGDON_SRC && PYTHONPATH=/verif/harness VERIF_TRACE_DIR=<dir> python -m pytest -p pytest_trace ...

The three __call__ methods (OperatorDict, UnaryOperatorDict, Registry) are wrapped from outside; the
wrapper calls the original and then logs (operator, operands, result) when every operand is a
multivector and every coefficient is exactly representable (ints, Fractions, sympy polynomials /
rational functions with rational coefficients, floats within 1e-7 of a small fraction).  Events are
grouped per algebra configuration and options and written as TraceOps traces at session end."""
import os
import sys
import json
import hashlib
from fractions import Fraction

HERE = os.path.dirname(os.path.abspath(__file__))
if HERE not in sys.path:
    sys.path.insert(0, HERE)

_groups = {}
_symids = {}
_stats = {'calls': 0, 'recorded': 0, 'skipped': 0}
KNOWN = {'gp', 'sw', 'cp', 'acp', 'ip', 'sp', 'lc', 'rc', 'op', 'rp', 'proj', 'add', 'sub', 'div', 'inv', 'neg', 'reverse', 'involute',
         'conjugate', 'polarity', 'unpolarity', 'hodge', 'unhodge', 'normsq', 'outerexp', 'outersin', 'outercos', 'outertan'}


def _ucfg(alg):
    basis = [[int(ch, 16) for ch in nm[1:]] for nm in alg.basis] if alg.basis else []
    return {'mode': 'sig', 'p': 0, 'q': 0, 'r': 0, 'sig': [int(s) for s in alg.signature], 'start': int(alg.start_index), 'basis': basis}


def _coef(v):
    import sympy
    from generic import G
    from math import lcm
    if isinstance(v, bool):
        raise ValueError('bool')
    if isinstance(v, (int, Fraction)):
        return G.const(v)
    if isinstance(v, float):
        f = Fraction(v).limit_denominator(10 ** 4)
        if abs(float(f) - v) > 1e-11 * max(1.0, abs(v)):
            raise ValueError('float')
        return G.const(f)
    if isinstance(v, sympy.Basic):
        expr = sympy.nsimplify(v, rational=True)
        n, d = sympy.fraction(sympy.together(expr))
        syms = sorted(expr.free_symbols, key=lambda s: s.name)

        def poly(e):
            if not syms:
                if not e.is_Rational:
                    raise ValueError('irrational')
                return {(): Fraction(int(e.p), int(e.q))} if e != 0 else {}
            P = sympy.Poly(sympy.expand(e), *syms)
            out = {}
            for pw, c in P.terms():
                if not c.is_Rational:
                    raise ValueError('irrational coefficient')
                mono = []
                for s, k in zip(syms, pw):
                    mono += [_symids.setdefault(s.name, 5000 + len(_symids))] * int(k)
                out[tuple(sorted(mono))] = Fraction(int(c.p), int(c.q))
            return out
        pn, pd = poly(n), poly(d)
        L = lcm(*[c.denominator for c in list(pn.values()) + list(pd.values())] or [1])
        return G({m: int(c * L) for m, c in pn.items()}, {m: int(c * L) for m, c in pd.items()})
    raise ValueError(type(v).__name__)


def _record(od, args, res, raised):
    from kingdon.multivector import MultiVector
    _stats['calls'] += 1
    name = od.name
    if name not in KNOWN or not all(isinstance(a, MultiVector) for a in args) or (res is not None and not isinstance(res, MultiVector)):
        _stats['skipped'] += 1
        return
    alg = od.algebra
    if alg.d > 6 or any(len(a.keys()) > 16 for a in args):
        _stats['skipped'] += 1
        return
    try:
        mvs = list(args) + ([res] if res is not None else [])
        recs = [([int(k) for k in m.keys()], [_coef(v) for v in m.values()]) for m in mvs]
    except (ValueError, TypeError, AttributeError, OverflowError, RecursionError):
        _stats['skipped'] += 1
        return
    allG = [c for _, cs in recs for c in cs]
    if any(c.max_abs() >= 2 ** 24 for c in allG) or sum(len(c.n) + len(c.d) for c in allG) > 400:
        _stats['skipped'] += 1
        return
    try:
        import kdriver
        kdriver._magnitude_guard(name, [], mvs, len(args))
    except Exception:   # noqa: BLE001  (too large for 32-bit TLC integers, or not encodable)
        _stats['skipped'] += 1
        return
    ring = 'poly' if all(c.is_poly() for c in allG) else 'rat'
    enc = [{'keys': k, 'coefs': [c.to_json(ring) for c in cs]} for k, cs in recs]
    u = _ucfg(alg)
    opts = {'cse': bool(alg.cse), 'graded': bool(alg.graded), 'wrapper': alg.wrapper is not None,
            'symbolcls': '' if alg.codegen_symbolcls is None else 'custom', 'pretty_blade': ''}
    key = hashlib.sha1(json.dumps([u, opts], sort_keys=True).encode()).hexdigest()[:12]
    g = _groups.setdefault(key, {'u': u, 'opts': opts, 'events': []})
    test = os.environ.get('PYTEST_CURRENT_TEST', '').split(' ')[0]
    g['events'].append({'id': f'{key}:{len(g["events"])}', 'kind': 'op', 'op': name, 'ring': ring, 'args': enc[:len(args)], 'params': [],
                        'raised': raised, 'res': enc[len(args)] if res is not None else {'keys': [], 'coefs': []},
                        'witness': {'keys': [], 'coefs': []}, 'test': test})
    _stats['recorded'] += 1


def _wrap(cls, binary_too=False):
    orig = cls.__call__

    def call(self, *mvs):
        try:
            res = orig(self, *mvs)
        except ZeroDivisionError:
            raise
        except Exception:
            raise
        try:
            _record(self, mvs, res, '')
        except Exception:   # noqa: BLE001  (recording must never disturb the test)
            pass
        return res
    cls.__call__ = call


def pytest_configure(config):
    from kingdon.operator_dict import OperatorDict, UnaryOperatorDict
    _wrap(OperatorDict)
    _wrap(UnaryOperatorDict)


def pytest_sessionfinish(session, exitstatus):
    out = os.environ.get('VERIF_TRACE_DIR')
    if not out:
        return
    os.makedirs(out, exist_ok=True)
    wid = os.environ.get('PYTEST_XDIST_WORKER', 'main')
    for key, g in _groups.items():
        # nested symbolic calls made while code is generated use RationalPolynomial coefficients: not recorded
        with open(os.path.join(out, f'suite_{wid}_{key}.ndjson'), 'w') as f:
            f.write(json.dumps({'kind': 'cfg', 'u': g['u'], 'opts': g['opts']}) + '\n')
            for ev in g['events'][:4000]:
                f.write(json.dumps(ev) + '\n')
    with open(os.path.join(out, f'stats_{wid}.json'), 'w') as f:
        json.dump(_stats, f)
