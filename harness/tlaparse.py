"""A small parser for TLA+ values as TLC prints them (state dumps, simulation traces, PrintT):
integers, strings, booleans, <<sequences>>, {sets}, [records |-> ...], (functions :> ... @@ ...),
model values.  Sets become Python lists (sorted when possible), records dicts, sequences lists,
functions dicts keyed by the Python form of the key (tuples for sequence keys)."""
import re

_TOKEN = re.compile(r'\s*(<<|>>|\|->|:>|@@|\[|\]|\{|\}|\(|\)|,|-?\d+|"(?:[^"\\]|\\.)*"|[A-Za-z_][A-Za-z0-9_!]*)')


def _tokens(text):
    pos, out = 0, []
    while pos < len(text):
        m = _TOKEN.match(text, pos)
        if not m:
            if text[pos:].strip() == '':
                break
            raise ValueError(f'cannot tokenise TLA+ value at: {text[pos:pos + 40]!r}')
        out.append(m.group(1))
        pos = m.end()
    return out


def _hashable(v):
    if isinstance(v, list):
        return tuple(_hashable(x) for x in v)
    if isinstance(v, dict):
        return tuple(sorted((k, _hashable(x)) for k, x in v.items()))
    return v


class _P:
    def __init__(self, toks):
        self.t, self.i = toks, 0

    def peek(self):
        return self.t[self.i] if self.i < len(self.t) else None

    def eat(self, tok=None):
        cur = self.peek()
        if tok is not None and cur != tok:
            raise ValueError(f'expected {tok!r}, found {cur!r} at token {self.i}')
        self.i += 1
        return cur

    def value(self):
        t = self.peek()
        if t == '<<':
            self.eat()
            out = []
            while self.peek() != '>>':
                out.append(self.value())
                if self.peek() == ',':
                    self.eat()
            self.eat('>>')
            return out
        if t == '{':
            self.eat()
            out = []
            while self.peek() != '}':
                out.append(self.value())
                if self.peek() == ',':
                    self.eat()
            self.eat('}')
            try:
                return sorted(out)
            except TypeError:
                return out
        if t == '[':
            self.eat()
            rec = {}
            while self.peek() != ']':
                k = self.eat()
                self.eat('|->')
                rec[k] = self.value()
                if self.peek() == ',':
                    self.eat()
            self.eat(']')
            return rec
        if t == '(':
            self.eat()
            fn = {}
            while True:
                k = self.value()
                self.eat(':>')
                fn[_hashable(k)] = self.value()
                if self.peek() == '@@':
                    self.eat()
                    continue
                break
            self.eat(')')
            return fn
        self.eat()
        if t is None:
            raise ValueError('unexpected end of TLA+ value')
        if re.fullmatch(r'-?\d+', t):
            return int(t)
        if t.startswith('"'):
            return t[1:-1].replace('\\"', '"').replace('\\\\', '\\')
        if t == 'TRUE':
            return True
        if t == 'FALSE':
            return False
        return t    # model value / identifier


def parse_value(text):
    p = _P(_tokens(text))
    v = p.value()
    if p.peek() is not None:
        raise ValueError(f'trailing tokens after TLA+ value: {p.t[p.i:p.i + 5]}')
    return v


def _parse_state_body(body):
    """A state is `var = value` or a conjunction `/\\ var = value ...`."""
    body = body.strip()
    parts = re.split(r'^/\\ ', body, flags=re.M)
    parts = [p for p in parts if p.strip()]
    state = {}
    for part in parts:
        m = re.match(r'\s*([A-Za-z_][A-Za-z0-9_]*)\s*=\s*(.*)', part, re.S)
        if not m:
            raise ValueError(f'cannot parse state conjunct: {part[:60]!r}')
        state[m.group(1)] = parse_value(m.group(2))
    return state


def parse_dump(path):
    """All states of a TLC `-dump` file, in file order."""
    text = open(path).read()
    chunks = re.split(r'^State \d+:\s*$', text, flags=re.M)[1:]
    return [_parse_state_body(c) for c in chunks]


def parse_simulation_file(path):
    """One behaviour written by `tlc -simulate file=...`: list of (action label, state)."""
    text = open(path).read()
    out = []
    for m in re.finditer(r'\\\* <([^>]*)>\s*\nSTATE_\d+ ==\s*\n(.*?)(?=\n\\\* <|\n=+\s*$|\Z)', text, re.S):
        label = m.group(1).split()[0] if m.group(1).strip() else ''
        out.append((label, _parse_state_body(m.group(2))))
    return out
