"""C19 events: exact clauses as `op` events (outer series, integer powers) and certificates (`cert`)
for sqrt, x**0.5, norm, normalized and exp on their stated domains."""
import os
import sys
import json
import math
import random
from fractions import Fraction

sys.path.insert(0, os.path.dirname(os.path.abspath(__file__)))


def run_job(job):
    import numpy as np
    import sympy
    import kdriver as K
    import pyref
    from kingdon import MultiVector
    rng = random.Random(job['seed'])
    u = job['u']
    from drive_ops import algebra_options, full_opts
    opts = job.get('opts', {})
    alg = K.make_algebra(u, **algebra_options(opts))
    d, sgn = pyref.sign_table(u)
    nb = 2 ** d
    events, skipped = [], []

    def ratmv(mv):
        """numeric multivector -> {keys, coefs} over Q (floats logged as nearby fractions)"""
        keys, coefs = [], []
        for k, v in zip(mv.keys(), mv.values()):
            if isinstance(v, sympy.Basic):
                v = float(v) if not v.is_Rational else Fraction(int(v.p), int(v.q))
            if isinstance(v, complex):
                raise K.EncodeError('complex value')
            try:
                g = K.coef_to_G(v)
            except K.EncodeError:
                # in the stated domains the exact answer is a small fraction; a float that is not one is logged
                # as a marker value that no certificate can accept (TLC then rejects the event)
                g = K.G.const(97)
            keys.append(int(k))
            coefs.append(g.to_json('rat'))
        return {'keys': keys, 'coefs': coefs}

    def simple_elements():
        """elements squaring to a scalar: single blades, and sums of two blades that anticommute"""
        out = [((B,), (1,)) for B in range(1, nb)]
        for _ in range(12):
            A, B = rng.randrange(1, nb), rng.randrange(1, nb)
            if A != B and sgn(A, B) == -sgn(B, A) and sgn(A, B) != 0:
                out.append(((A, B), (1, rng.choice([1, -1, 2]))))
        return out
    simples = simple_elements()
    variants = job.get('storage_variants', False)

    def stored(mv, zero=0.0):
        """C08: the same element in another storage layout (permutation, explicit zeros for extra blades, full canonical /
        full binary layout); only when the job asks for storage variants."""
        if not variants:
            return mv
        how = rng.choice(['perm', 'pad', 'pad', 'fullc', 'fullb'] if d <= 4 else ['perm', 'pad', 'pad'])
        if how == 'fullc':
            return mv.asfullmv()
        if how == 'fullb':
            return mv.asfullmv(canonical=False)
        keys, vals = list(mv.keys()), list(mv.values())
        if how == 'pad':
            rest = [b for b in range(nb) if b not in keys]
            for b in rng.sample(rest, min(len(rest), rng.randint(1, 3))):
                keys.append(b)
                z = vals[0] * 0 if vals else zero          # a zero of the operand's own coefficient type / shape
                vals.append(z)
        order = list(range(len(keys)))
        rng.shuffle(order)
        return MultiVector.fromkeysvalues(alg, tuple(keys[i] for i in order), [vals[i] for i in order])
    for ci in range(job['n']):
        kind = rng.choice(job.get('kinds') or ['sqrt', 'sqrt', 'powhalf', 'norm', 'normalized', 'exp', 'exp', 'exp', 'expc'])
        eid = f"{job['prefix']}:{ci}"
        base = {'id': eid, 'kind': 'cert', 'cert': kind, 'raised': '', 'x': {'keys': [], 'coefs': []}, 'r': {'keys': [], 'coefs': []},
                'X': {'keys': [], 'coefs': []}, 'F': {'keys': [], 'coefs': []}, 'N': 0, 'g': 1, 'tol': 0, 'vtype': 'float', 'sq': ''}
        try:
            if kind in ('sqrt', 'powhalf'):
                keys, w = rng.choice(simples)
                c = rng.choice([Fraction(3, 2), Fraction(2), Fraction(5, 2), Fraction(3), Fraction(1)])
                dd = rng.choice([Fraction(1, 2), Fraction(-1, 2), Fraction(1, 4), Fraction(-3, 4), Fraction(1, 8)])
                if len(keys) == 2:
                    dd = dd / 2
                s = MultiVector.fromkeysvalues(alg, (0, *keys), [c] + [dd * wi for wi in w])
                xq = s * s
                # the square root is taken of python floats (the property's value type)
                xf = MultiVector.fromkeysvalues(alg, xq.keys(), [float(v) for v in xq.values()])
                if rng.random() < 0.3:
                    order = list(range(len(xf.keys())))
                    rng.shuffle(order)
                    xf = MultiVector.fromkeysvalues(alg, tuple(xf.keys()[i] for i in order), [xf.values()[i] for i in order])
                base['x'] = ratmv(xq)
                if not any(float(v) > 0 for k, v in zip(xq.keys(), xq.values()) if k == 0):
                    continue                                            # outside the domain: positive scalar part
                try:
                    xf = stored(xf)
                    r = xf.sqrt() if kind == 'sqrt' else xf ** 0.5
                    base['r'] = ratmv(r)
                except K.EncodeError:
                    raise
                except Exception as e:   # noqa: BLE001
                    base['raised'] = type(e).__name__
            elif kind in ('norm', 'normalized'):
                keys = tuple(rng.sample(range(nb), rng.randint(1, min(nb, 3))))
                vals = [rng.choice([1, 2, 3, 4, 6, -2, -3, 12, 5]) for _ in keys]
                xq = MultiVector.fromkeysvalues(alg, keys, [Fraction(v) for v in vals])
                nsq = xq.normsq()
                if tuple(nsq.keys()) not in ((0,), ()):
                    continue                                            # norm needs a scalar squared norm
                if not nsq.values() and kind == 'norm' and job.get('null_norms', True):
                    # a NULL element (squared norm 0, stored as the zero multivector): its norm is 0
                    xf = MultiVector.fromkeysvalues(alg, keys, [float(v) for v in vals])
                    base['x'] = ratmv(xq)
                    base['null'] = True
                    try:
                        base['r'] = ratmv(stored(xf).norm())
                    except K.EncodeError:
                        raise
                    except Exception as e:   # noqa: BLE001
                        base['raised'] = type(e).__name__
                    events.append(base)
                    continue
                if not nsq.values():
                    continue
                q = Fraction(nsq.values()[0])
                if q <= 0:
                    continue
                rt = Fraction(math.isqrt(q.numerator), math.isqrt(q.denominator))
                if rt * rt != q:
                    continue                                            # keep the norm rational, so that the certificate is exact
                xf = MultiVector.fromkeysvalues(alg, keys, [float(v) for v in vals])
                base['x'] = ratmv(xq)
                try:
                    xf = stored(xf)
                    r = xf.norm() if kind == 'norm' else xf.normalized()
                    base['r'] = ratmv(r)
                except K.EncodeError:
                    raise
                except Exception as e:   # noqa: BLE001
                    base['raised'] = type(e).__name__
            elif kind == 'expc':
                # complex coefficients: x = (a + b i)/g * blade(s); the result is compared part by part
                keys, w = rng.choice([s_ for s_ in simples if len(s_[0]) == 1])
                g, N = 2, 8
                z = rng.choice([(1, 1), (1, -1), (0, 1), (-1, 1), (1, 0)])
                S = math.factorial(N) * g ** N
                base.update({'cert': 'expc', 'X': {'keys': [int(k) for k in keys], 'coefs': [[z[0], z[1]]]}, 'N': N, 'g': g, 'vtype': 'complex',
                             'sq': 'complex'})
                norm1 = (abs(z[0]) + abs(z[1])) / g
                base['tol'] = int(math.ceil((norm1 ** (N + 1)) / math.factorial(N + 1) * 4 * S)) + 2
                x = MultiVector.fromkeysvalues(alg, keys, [complex(z[0], z[1]) / g])
                r = None
                try:
                    x = stored(x)
                    r = x.exp()
                except Exception as e:   # noqa: BLE001
                    base['raised'] = type(e).__name__
                if r is not None:
                    fk, fv = [], []
                    for k, v in zip(r.keys(), r.values()):
                        v = complex(v)
                        ok_ = v == v and abs(v) < 1e3
                        fk.append(int(k))
                        fv.append([int(round(v.real * S)), int(round(v.imag * S))] if ok_ else [2 ** 30, 2 ** 30])
                    base['F'] = {'keys': fk, 'coefs': fv}
            else:
                keys, w = rng.choice(simples)
                g, N = rng.choice([(2, 8), (4, 6)])
                X = [wi * rng.choice([1, -1]) for wi in w]
                if max(abs(v) for v in X) * len(X) > g // 2 + (1 if g == 4 else 0):
                    g, N = 4, 6
                    X = [max(-1, min(1, v)) for v in X]
                vtype = rng.choice(job.get('vtypes') or ['float', 'float', 'int_over', 'numpy1', 'numpy3', 'sympy'])
                S = math.factorial(N) * g ** N
                sqv = sum(sgn(k, k) * v * v for k, v in zip(keys, X))
                base.update({'X': {'keys': [int(k) for k in keys], 'coefs': [int(v) for v in X]}, 'N': N, 'g': g, 'vtype': vtype,
                             'sq': 'pos' if sqv > 0 else ('neg' if sqv < 0 else 'zero')})
                # remainder of the series after N terms for |x| <= 1/2 (every coefficient of the result), in units of 1/S, plus rounding
                norm1 = sum(abs(v) for v in X) / g
                rem = (norm1 ** (N + 1)) / math.factorial(N + 1) * 2
                base['tol'] = int(math.ceil(rem * S)) + 2
                lane = 0
                if vtype == 'float':
                    x = MultiVector.fromkeysvalues(alg, keys, [v / g for v in X])
                elif vtype == 'int_over':
                    x = MultiVector.fromkeysvalues(alg, keys, [Fraction(v, g) for v in X])
                elif vtype == 'numpy1':
                    x = MultiVector.fromkeysvalues(alg, keys, [np.array([v / g]) for v in X])
                elif vtype == 'numpy3':
                    lane = rng.randrange(3)
                    x = MultiVector.fromkeysvalues(alg, keys, [np.array([0.1 if j != lane else v / g for j in range(3)]) for v in X])
                else:
                    t = sympy.Symbol('t')
                    x = MultiVector.fromkeysvalues(alg, keys, [sympy.Rational(v, g) * t for v in X])
                r = None
                try:
                    x = stored(x)
                    r = x.exp()
                except Exception as e:   # noqa: BLE001
                    base['raised'] = type(e).__name__
                if r is not None:
                    if vtype == 'sympy':
                        r = r.map(lambda v: (v.subs({t: 1}) if isinstance(v, sympy.Basic) else v))
                        r = r.map(lambda v: complex(sympy.N(v)) if isinstance(v, sympy.Basic) else v)
                    fk, fv = [], []
                    for k, v in zip(r.keys(), r.values()):
                        if isinstance(v, np.ndarray):
                            v = v.reshape(-1)[lane if v.size > 1 else 0]
                        if isinstance(v, complex):
                            if abs(v.imag) > 1e-12:
                                raise K.EncodeError('complex')
                            v = v.real
                        v = float(v)
                        fk.append(int(k))
                        # NaN / inf are logged as a value no series can match
                        fv.append(int(round(v * S)) if v == v and abs(v) < 1e3 else 2 ** 30)
                    base['F'] = {'keys': fk, 'coefs': fv}
            events.append(base)
        except (K.EncodeError, OverflowError, ValueError, ZeroDivisionError) as e:
            skipped.append([eid, kind, str(e)[:80]])
        except Exception as e:   # noqa: BLE001
            # the preparation of a case uses the library too (products, squared norms): an unexpected exception there is
            # an observation about the library, not a harness failure
            base['raised'] = type(e).__name__
            events.append(base)
    K.write_trace(job['out'], {'kind': 'cfg', 'u': u, 'opts': full_opts(opts)}, events)
    return {'out': job['out'], 'events': len(events), 'skipped': skipped}


def run_jobs(jobs, procs=16):
    import multiprocessing as mp
    import kdriver as _K
    jobs = _K.filter_buildable(jobs)
    if not jobs:
        return []
    with mp.get_context('fork').Pool(min(procs, len(jobs))) as pool:
        return pool.map(run_job, jobs, chunksize=1)
