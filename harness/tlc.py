"""Running TLC (model checking and trace validation) and parsing what it says."""
import os
import re
import json
import shutil
import subprocess
import time
from concurrent.futures import ThreadPoolExecutor

VERIF = os.path.dirname(os.path.dirname(os.path.abspath(__file__)))
SPEC = os.path.join(VERIF, 'spec')
JAR = '/opt/veriftools/tla/tla2tools.jar:/opt/veriftools/tla/CommunityModules-deps.jar'


class MachineryError(Exception):
    pass


def _java(heap_mb):
    return ['java', '-XX:+UseParallelGC', f'-Xmx{heap_mb}m', '-XX:TieredStopAtLevel=1' if heap_mb <= 1024 else '-XX:+TieredCompilation',
            '-cp', JAR, 'tlc2.TLC']


def _parse_summary(out):
    m = re.search(r'(\d+) states generated, (\d+) distinct states found', out)
    gen, dist = (int(m.group(1)), int(m.group(2))) if m else (0, 0)
    m = re.search(r'The depth of the complete state graph search is (\d+)', out)
    depth = int(m.group(1)) if m else 0
    return gen, dist, depth


def _tuples(out, tag):
    """Tuples printed by PrintT(<<"TAG", ...>>) -- TLC breaks long tuples over several lines, so the
    text is matched by brackets -- parsed into lists of strings/ints."""
    res = []
    for m in re.finditer(r'^<<\s*"%s",' % tag, out, re.M):
        i, depth = m.start(), 0
        j = i
        while j < len(out):
            if out.startswith('<<', j):
                depth += 1
                j += 2
                continue
            if out.startswith('>>', j):
                depth -= 1
                j += 2
                if depth == 0:
                    break
                continue
            j += 1
        body = out[m.end():j - 2]
        parts = re.findall(r'"((?:[^"\\]|\\.)*)"|(-?\d+)', body)
        res.append([p[0] if p[1] == '' else int(p[1]) for p in parts])
    return res


def run_mc(module, cfg, workdir, workers=16, timeout=1800, extra_args=(), env=None, heap_mb=12000):
    """Model-check spec/<module>.tla with spec/<cfg>.  Returns dict(ok, generated, distinct,
    depth, out, violated).  A violated invariant is reported, not raised."""
    os.makedirs(workdir, exist_ok=True)
    meta = os.path.join(workdir, 'meta_' + os.path.basename(cfg).replace('.', '_'))
    shutil.rmtree(meta, ignore_errors=True)
    cmd = _java(heap_mb) + ['-workers', str(workers), '-metadir', meta, '-noGenerateSpecTE',
                            '-config', cfg, *extra_args, module]
    e = dict(os.environ)
    if env:
        e.update(env)
    t0 = time.time()
    try:
        p = subprocess.run(cmd, cwd=SPEC, capture_output=True, text=True, timeout=timeout, env=e)
    except subprocess.TimeoutExpired:
        raise MachineryError(f'TLC timed out after {timeout}s on {module} {cfg}')
    out = p.stdout + p.stderr
    shutil.rmtree(meta, ignore_errors=True)
    gen, dist, depth = _parse_summary(out)
    violated = re.findall(r'Error: Invariant (\S+) is violated', out) + \
        re.findall(r'Error: Action property (\S+) is violated', out) + \
        (['temporal'] if 'Temporal properties were violated' in out else [])
    finished = 'Model checking completed. No error has been found.' in out or \
        ('-simulate' in extra_args and p.returncode in (0,))
    if not finished and not violated:
        raise MachineryError(f'TLC failed on {module} {cfg} (exit {p.returncode}):\n{out[-3000:]}')
    return {'ok': finished and not violated, 'generated': gen, 'distinct': dist, 'depth': depth,
            'violated': violated, 'out': out, 'wall_s': time.time() - t0}


def run_trace(module, cfg, trace_file, workdir, timeout=1800, env=None, heap_mb=2000):
    """Validate one ndjson trace with spec/<module>.  Returns dict(events, rejects=[[id,clause]],
    distinct, generated).  Raises MachineryError unless TLC consumed the whole trace."""
    os.makedirs(workdir, exist_ok=True)
    meta = os.path.join(workdir, 'meta_' + os.path.basename(trace_file).replace('.', '_'))
    shutil.rmtree(meta, ignore_errors=True)
    cmd = _java(heap_mb) + ['-workers', '1', '-metadir', meta, '-noGenerateSpecTE', '-config', cfg, module]
    e = dict(os.environ)
    e['TRACE_FILE'] = os.path.abspath(trace_file)
    if env:
        e.update(env)
    try:
        p = subprocess.run(cmd, cwd=SPEC, capture_output=True, text=True, timeout=timeout, env=e)
    except subprocess.TimeoutExpired:
        raise MachineryError(f'TLC timed out after {timeout}s validating {trace_file}')
    out = p.stdout + p.stderr
    shutil.rmtree(meta, ignore_errors=True)
    if 'Model checking completed. No error has been found.' not in out:
        err = MachineryError(f'TLC did not complete on trace {trace_file} (exit {p.returncode}):\n{out[-3000:]}')
        err.out = out
        raise err
    gen, dist, depth = _parse_summary(out)
    rejects = _tuples(out, 'REJECT')
    notes = _tuples(out, 'NOTE')
    return {'generated': gen, 'distinct': dist, 'depth': depth, 'rejects': rejects, 'notes': notes, 'out': out}


def count_lines(path):
    with open(path) as f:
        return sum(1 for _ in f)


def validate_traces(module, cfg, files, workdir, procs=16, timeout=1800, header_lines=1):
    """Validate many trace files in parallel TLC processes.  Returns (results, totals)."""
    def one(f):
        # TLC integers are 32-bit.  The drivers bound the magnitudes they can predict; an event whose verdict still
        # overflows in TLC is NOT decided: it is removed from the trace (counted in `overflow_dropped`, reported in the
        # evidence) and the rest of the trace is validated.  More than max(3, 2%) such events is a machinery failure.
        dropped = 0
        while True:
            try:
                r = run_trace(module, cfg, f, workdir, timeout=timeout)
                break
            except MachineryError as e:
                out = getattr(e, 'out', '')
                if 'Overflow when computing' not in out:
                    raise
                dist = _parse_summary(out)[1]
                with open(f) as fh:
                    lines = fh.readlines()
                idx = dist - 1 + header_lines
                dropped += 1
                if not (header_lines <= idx < len(lines)) or dropped > max(3, (len(lines) - header_lines) // 50):
                    raise
                del lines[idx]
                with open(f, 'w') as fh:
                    fh.writelines(lines)
        r['overflow_dropped'] = dropped
        n_events = count_lines(f) - header_lines
        # every line must have been consumed: initial state + one state per event
        if r['distinct'] != n_events + 1:
            raise MachineryError(f'trace {f}: TLC consumed {r["distinct"] - 1} of {n_events} events\n{r["out"][-2000:]}')
        r['events'] = n_events
        r['file'] = f
        return r
    with ThreadPoolExecutor(max_workers=procs) as ex:
        results = list(ex.map(one, files))
    tot = {'overflow_dropped': sum(r['overflow_dropped'] for r in results), 'events': sum(r['events'] for r in results), 'states': sum(r['distinct'] for r in results),
           'transitions': sum(r['generated'] for r in results),
           'rejects': [(r['file'], rj) for r in results for rj in r['rejects']]}
    return results, tot
