"""C20 events: GraphWidget scenes (create / drag / update).  Only the TRANSPORT of the payload is
emulated here (byte buffers viewed as Float64, like `new Float64Array(buffer)`); placing values on
blades (the front end's toElement) is done by the specification (spec/TraceGraph.tla)."""
import os
import sys
import json
import random

sys.path.insert(0, os.path.dirname(os.path.abspath(__file__)))
GARBAGE = 2 ** 30


def run_job(job):
    import numpy as np
    import kdriver as K
    from kingdon import MultiVector
    rng = random.Random(job['seed'])
    u = job['u']
    events, skipped = [], []
    for si in range(job['n']):
        alg = K.make_algebra(u)
        d = alg.d
        nb = 2 ** d
        canon = list(alg.canon2bin.values())
        regs = {}          # id -> ('mv', MultiVector) | ('lane', MultiVector, lane)
        nid = [0]

        def new_mv(kind=None):
            kind = kind or rng.choice(job['kinds'])
            keys = rng.sample(range(nb), rng.randint(1, min(nb, 4)))
            if kind == 'pointlike' and d >= 1:
                keys = [b for b in canon if bin(b).count('1') == d - 1]
            vals = [rng.choice([-3, -2, -1, 1, 2, 3, 4, 5, 7]) for _ in keys]
            x = MultiVector.fromkeysvalues(alg, tuple(keys), list(vals))
            if kind == 'dense_canonical':
                x = x.asfullmv()
            elif kind == 'dense_binary':
                x = x.asfullmv(canonical=False)
            elif kind == 'permuted':
                order = list(range(len(keys)))
                rng.shuffle(order)
                x = MultiVector.fromkeysvalues(alg, tuple(keys[i] for i in order), [vals[i] for i in order])
            elif kind == 'ndarray_float':
                x = MultiVector.fromkeysvalues(alg, tuple(keys), np.array(vals, dtype=np.float64))
            elif kind == 'ndarray_int':
                x = MultiVector.fromkeysvalues(alg, tuple(keys), np.array(vals, dtype=np.int64))
            elif kind == 'tuple_backed':
                x = MultiVector.fromkeysvalues(alg, tuple(keys), list(vals))
            nid[0] += 1
            regs[nid[0]] = ('mv', x, kind)
            return nid[0]

        def new_amv():
            keys = rng.sample(range(nb), rng.randint(1, min(nb, 3)))
            shape = rng.choice([(2,), (3,), (2, 2), (2, 3), (3, 2)])
            n = int(np.prod(shape))
            cont = rng.choice(['list', 'ndarray'])
            arrs = [np.array([rng.choice([-2, -1, 1, 2, 3, 4, 5]) for _ in range(n)], dtype=np.float64).reshape(shape) for _ in keys]
            x = MultiVector.fromkeysvalues(alg, tuple(keys), arrs if cont == 'list' else np.stack(arrs))
            ids = []
            for lane in range(n):          # elements in C order (the order of itermv)
                nid[0] += 1
                regs[nid[0]] = ('lane', x, lane)
                ids.append(nid[0])
            return x, ids

        def gen(depth, top=False):
            r = rng.random()
            if r < 0.15:
                col = rng.choice([0xD0FFE1, 0x224488, 255])
                return {'t': 'int', 'v': col}, col
            if r < 0.25:
                s = rng.choice(['A', 'B', 'label'])
                return {'t': 'str', 'v': s}, s
            if r < 0.6 or depth == 0:
                i = new_mv('pointlike' if top and rng.random() < 0.4 else None)
                return {'t': 'mv', 'id': i}, regs[i][1]
            if r < 0.68 and not top:
                x, ids = new_amv()
                return {'t': 'amv', 'ids': ids}, x
            if r < 0.82:
                n = rng.randint(1, 3)
                kids = [gen(depth - 1) for _ in range(n)]
                tt = rng.choice(['list', 'tuple'])
                objs = [k[1] for k in kids]
                return {'t': tt, 'c': [k[0] for k in kids]}, (objs if tt == 'list' else tuple(objs))
            if r < 0.92:
                sub, obj = gen(depth - 1)
                return {'t': 'call', 'c': sub}, (lambda obj=obj: obj)
            mvids = [i for i, v in regs.items() if v[0] == 'mv']
            if len(mvids) < 2:
                i = new_mv()
                return {'t': 'mv', 'id': i}, regs[i][1]
            a, b = rng.sample(mvids, 2)
            op = rng.choice(['rp', 'op', 'gp', 'add'])
            xa, xb = regs[a][1], regs[b][1]
            return {'t': 'expr', 'op': op, 'ids': [a, b]}, (lambda xa=xa, xb=xb, op=op: K.apply_op(op, [xa, xb]))

        cam_id = new_mv('sparse') if rng.random() < 0.3 else 0
        nsub = rng.randint(2, 6)
        top = [gen(2, top=True) for _ in range(nsub)]
        tree = [t[0] for t in top]
        objs = [t[1] for t in top]
        # the documented single-callable form alg.graph(graph_func): graph_func returns the whole subject list and computes
        # dependent values EAGERLY inside it (no nested lambda), so they are up to date only if the root function is
        # called again after a drag / update
        rootfunc = rng.random() < 0.35
        eager = set()
        if rootfunc:
            mvids = [i for i, v in regs.items() if v[0] == 'mv']
            if len(mvids) >= 2:
                nodes, fns = [], []
                for _ in range(rng.randint(1, 2)):
                    a, b = rng.sample(mvids, 2)
                    op = rng.choice(['rp', 'op', 'gp', 'add'])
                    fn = (lambda xa=regs[a][1], xb=regs[b][1], op=op: K.apply_op(op, [xa, xb]))
                    eager.add(id(fn))
                    nodes.append({'t': 'expr', 'op': op, 'ids': [a, b]})
                    fns.append(fn)
                tree.append({'t': 'list', 'c': nodes})
                objs.append(fns)

        def force(o):
            if callable(o) and id(o) in eager:
                return o()
            if isinstance(o, list):
                return [force(x) for x in o]
            if isinstance(o, tuple):
                return tuple(force(x) for x in o)
            return o

        def snapshot():
            out = []
            for i, v in sorted(regs.items()):
                if v[0] == 'mv':
                    x = v[1]
                    out.append({'id': i, 'keys': [int(k) for k in x.keys()], 'coefs': [toint(c) for c in x.values()]})
                else:
                    x, lane = v[1], v[2]
                    out.append({'id': i, 'keys': [int(k) for k in x.keys()], 'coefs': [toint(np.asarray(c).reshape(-1)[lane]) for c in x.values()]})
            return out

        def toint(v):
            v = float(v)
            if v != v or abs(v) >= 2 ** 29 or v != int(v):
                return GARBAGE
            return int(v)

        def conv(item):
            if isinstance(item, dict) and 'mv' in item:
                vals = item['mv']
                if isinstance(vals, (bytes, bytearray)):
                    vals = np.frombuffer(vals, dtype=np.float64)          # new Float64Array(dataview.buffer)
                vals = [toint(v) for v in vals]
                return {'t': 'mv', 'haskeys': 'keys' in item, 'keys': [int(k) for k in item.get('keys', [])], 'vals': vals}
            if isinstance(item, (list, tuple)):
                return {'t': 'list', 'c': [conv(x) for x in item]}
            if isinstance(item, str):
                return {'t': 'str', 'v': item}
            if isinstance(item, (int, np.integer)):
                return {'t': 'int', 'v': int(item)}
            raise K.EncodeError(f'unexpected payload item {type(item).__name__}')

        def base(step, eid):
            return {'id': eid, 'kind': 'widget', 'step': step, 'raised': '', 'tree': tree, 'payload': [], 'key2idx': [], 'signature': [],
                    'cayley': [], 'dp': [], 'dpids': [], 'dpi': [], 'dpi_expected': [], 'dragids': [], 'newpoints': [], 'mvs': snapshot(),
                    'hascamera': False, 'camera': {'t': 'int', 'v': 0}, 'camid': 0, 'rootfunc': rootfunc}
        eid = f"{job['prefix']}:{si}"
        try:
            ev = base('create', eid + '.c')
            w = None
            try:
                opts = {'lineWidth': 2}
                if cam_id:
                    opts['camera'] = regs[cam_id][1]
                w = alg.graph(lambda: [force(o) for o in objs], **opts) if rootfunc else alg.graph(*objs, **opts)
                if cam_id:
                    ev['hascamera'], ev['camera'], ev['camid'] = True, conv(w.options['camera']), cam_id
                ev['payload'] = [conv(x) for x in w.subjects]
                ev['key2idx'] = [[int(k), int(v)] for k, v in w.key2idx.items()]
                ev['signature'] = [int(s) for s in w.signature]
                cay = []
                for row in w.cayley:
                    r_ = []
                    for s in row:
                        if s == '0':
                            r_.append([0, []])
                        else:
                            sg = -1 if s.startswith('-') else 1
                            nm = s.lstrip('-')
                            r_.append([sg, [] if nm == '1' else [int(ch, 16) for ch in nm[1:]]])
                    cay.append(r_)
                ev['cayley'] = cay
                ev['dp'] = [conv(x) for x in w.draggable_points]
                # expected draggable points: the multivectors at the first level (PGA: only the points)
                exp = []
                for j, (t, o) in enumerate(zip(tree, objs)):
                    if t['t'] == 'mv':
                        x = regs[t['id']][1]
                        if alg.r == 1 and d in (3, 4) and x.grades != (d - 1,):
                            continue
                        exp.append((j, t['id']))
                ev['dpids'] = [i for _, i in exp]
                ev['dpi_expected'] = [j for j, _ in exp]
                ev['dpi'] = [int(j) for j in w.draggable_points_idxs]
            except K.EncodeError:
                raise
            except Exception as e:   # noqa: BLE001
                ev['raised'] = type(e).__name__
            ev['mvs'] = snapshot()
            events.append(ev)
            if w is None or ev['raised']:
                continue
            for step in range(rng.randint(1, 3)):
                if rng.random() < 0.7 and ev['dpids']:
                    e2 = base('drag', f'{eid}.d{step}')
                    newpts = [[rng.choice([-9, -8, 6, 8, 9, 10, 11, 12]) for _ in range(nb)] for _ in ev['dpids']]
                    e2['dragids'] = ev['dpids']
                    e2['newpoints'] = newpts
                    try:
                        w.draggable_points = [{'mv': [float(v) for v in p]} for p in newpts]
                        e2['payload'] = [conv(x) for x in w.subjects]
                    except K.EncodeError:
                        raise
                    except Exception as e:   # noqa: BLE001
                        e2['raised'] = type(e).__name__
                else:
                    e2 = base('update', f'{eid}.u{step}')
                    try:
                        w._handle_custom_msg({'type': 'update_mvs'}, [])
                        e2['payload'] = [conv(x) for x in w.subjects]
                    except K.EncodeError:
                        raise
                    except Exception as e:   # noqa: BLE001
                        e2['raised'] = type(e).__name__
                e2['key2idx'] = ev['key2idx']
                e2['mvs'] = snapshot()
                events.append(e2)
        except K.EncodeError as e:
            skipped.append([eid, str(e)[:80]])
    # one trace per job: all scenes share the configuration
    with open(job['out'], 'w') as f:
        f.write(json.dumps({'kind': 'cfg', 'u': u}) + '\n')
        for ev in events:
            f.write(json.dumps(ev) + '\n')
    return {'out': job['out'], 'events': len(events), 'skipped': skipped}


def run_jobs(jobs, procs=16):
    import multiprocessing as mp
    import kdriver as _K
    jobs = _K.filter_buildable(jobs)
    if not jobs:
        return []
    with mp.get_context('fork').Pool(min(procs, len(jobs))) as pool:
        return pool.map(run_job, jobs, chunksize=1)
