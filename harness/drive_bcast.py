"""C16 events: array-valued coefficients (`bcast`, `getitem`, `setitem`) and operand kinds on either
side of infix / reflected operators (`resolve`)."""
import os
import sys
import json
import random
import operator

sys.path.insert(0, os.path.dirname(os.path.abspath(__file__)))

INFIX = {'gp': operator.mul, 'op': operator.xor, 'ip': operator.or_, 'rp': operator.and_, 'sw': operator.rshift,
         'proj': operator.matmul, 'add': operator.add, 'sub': operator.sub, 'div': operator.truediv}
SHAPES = [(3,), (2, 2), (1,), (4,), (2, 1), (1, 3), (2, 3)]


def _touch_then_overwrite(a, op, args, params, rng, K):
    """An object with the blades, container and shapes of `a` but other values, used once, then overwritten in place with
    the values of `a` (x[...] = a).  Falls back to `a` itself whenever the overwrite did not produce exactly a's values
    (assignment is judged by the setitem events, not here)."""
    import numpy as np
    from kingdon import MultiVector
    vals = a.values()
    try:
        if isinstance(vals, np.ndarray):
            other = rng.randint(1, 3) + np.array(vals) * 0 + np.arange(vals.size).reshape(vals.shape) % 5
        elif isinstance(vals, (list, tuple)) and vals and all(isinstance(v, np.ndarray) for v in vals):
            other = type(vals)(rng.randint(1, 3) + v * 0 + np.arange(v.size).reshape(v.shape) % 5 for v in vals)
        else:
            return a
        b = MultiVector.fromkeysvalues(a.algebra, a.keys(), other)
        for f in (lambda: K.apply_op(op, [b if x is a else x for x in args], params), lambda: b.inv(), lambda: b.normsq(),
                  lambda: (b.grades, b.type_number, b.issymbolic, b.free_symbols), lambda: b * b, lambda: ~b):
            try:
                f()
            except Exception:   # noqa: BLE001
                pass
        b[Ellipsis] = a
        same = len(b.values()) == len(vals) and all(np.array_equal(np.asarray(x), np.asarray(y)) and np.asarray(x).shape == np.asarray(y).shape
                                                     for x, y in zip(b.values(), vals))
        return b if same and b.keys() == a.keys() else a
    except Exception:   # noqa: BLE001
        return a


def run_job(job):
    import numpy as np
    import kdriver as K
    from kingdon import MultiVector
    rng = random.Random(job['seed'])
    u = job['u']
    alg = K.make_algebra(u)
    d = alg.d
    nb = 2 ** d
    events, skipped = [], []

    def rand_keys(ml=4, mn=1):
        return tuple(rng.sample(range(nb), rng.randint(mn, min(ml, nb))))

    def array_mv(keys, shape, container):
        arrs = [np.array([rng.randint(-4, 4) for _ in range(int(np.prod(shape)))], dtype=np.int64).reshape(shape) for _ in keys]
        if container == 'ndarray' and arrs:
            vals = np.stack(arrs)
        elif container == 'tuple':
            vals = tuple(arrs)
        else:
            vals = list(arrs)
        return MultiVector.fromkeysvalues(alg, tuple(keys), vals)

    def ints(arr):
        out = []
        for x in np.asarray(arr).reshape(-1):
            if float(x) != int(x):
                raise K.EncodeError('non-integer array entry (e.g. 1/2 from an outer series)')
            out.append(int(x))
        return out

    def rec_arr(mv, shape=None):
        vals = [np.asarray(v) for v in mv.values()]
        shp = list(vals[0].shape) if vals else list(shape or ())
        return {'keys': [int(k) for k in mv.keys()], 'shape': shp, 'flat': [[int(x) for x in v.reshape(-1)] for v in vals]}

    n = job['n']
    # ---- (a) element-wise action of every operator -------------------------------------------
    for ci in range(n):
        op = rng.choice(job['ops'])
        ar = 2 if op in K.BINARY else 1
        eid = f"{job['prefix']}:b{ci}"
        try:
            sx = rng.choice(SHAPES)
            shapes = [sx]
            if ar == 2:
                r = rng.random()
                # same shape, broadcastable shapes, or a plain (non-array) multivector on one side
                cands = [s for s in SHAPES if _broadcastable(s, sx)]
                shapes.append(sx if r < 0.4 else rng.choice(cands))
            params = [] if op not in ('grade', 'pow') else ([rng.randint(0, d)] if op == 'grade' else [2])
            args = [array_mv(rand_keys(3), s, rng.choice(['ndarray', 'list', 'list', 'tuple'])) for s in shapes]
            if ar == 2 and rng.random() < 0.2:
                k = rand_keys(3)
                args[rng.randint(0, 1)] = MultiVector.fromkeysvalues(alg, k, [rng.randint(-4, 4) for _ in k])
            # state left on an operand object must not survive its in-place update: a third of the cases build the operands
            # with OTHER values first, use them once (the same operator, the inverse, the cached attributes; unrecorded), and
            # then overwrite them in place through the public __setitem__ before the recorded call
            if rng.random() < 0.34:
                args = [_touch_then_overwrite(a, op, args, params, rng, K) for a in args]
            raised, res = '', None
            try:
                res = K.apply_op(op, args, params)
            except Exception as e:   # noqa: BLE001
                raised = type(e).__name__
            recs = []
            for a in args:
                vals = [np.asarray(v) for v in a.values()]
                recs.append(rec_arr(a))
            ev = {'id': eid, 'kind': 'bcast', 'op': op, 'params': params, 'args': recs, 'raised': raised,
                  'res': {'keys': [], 'shape': [], 'flat': []}, 'lanes': []}
            if res is not None:
                rvals = [np.asarray(v) for v in res.values()]
                # shape every lane map is computed in: numpy's broadcast of the operand shapes
                ashapes = [tuple(r_['shape']) for r_ in recs]
                bshape = np.broadcast_shapes(*ashapes) if ashapes else ()
                rr = {'keys': [int(k) for k in res.keys()], 'shape': list(bshape), 'flat': []}
                for v in rvals:
                    # a coefficient that does not depend on an array operand may come back with a smaller shape:
                    # it denotes the constant array (numpy semantics), so it is expanded for the lane-wise comparison
                    rr['flat'].append(ints(np.broadcast_to(v, bshape)))
                ev['res'] = rr
                size = int(np.prod(bshape)) if bshape else 1
                maps = []
                for shp in ashapes:
                    lab = np.arange(int(np.prod(shp)) if shp else 1).reshape(shp)
                    maps.append([int(x) for x in np.broadcast_to(lab, bshape).reshape(-1)])
                ev['lanes'] = [[m[l] for m in maps] for l in range(size)]
                ev['observed_shapes'] = [list(v.shape) for v in rvals]
            events.append(ev)
        except (K.EncodeError, ValueError, OverflowError) as e:
            skipped.append([eid, op, str(e)[:80]])
    # ---- (a2) inverse of an operand that was inverted before and then overwritten in place ---------------
    # (unit blades with coefficients +-1 in every lane: the inverse is integral, so the lane-wise certificate applies)
    nonnull = []
    for k in alg.canon2bin.values():
        try:
            sq = MultiVector.fromkeysvalues(alg, (k,), [1]) * MultiVector.fromkeysvalues(alg, (k,), [1])
            if any(v != 0 for v in sq.values()):
                nonnull.append(k)
        except Exception:   # noqa: BLE001
            pass
    for ci in range(max(3, n // 8) if nonnull else 0):
        eid = f"{job['prefix']}:v{ci}"
        try:
            shape = rng.choice([(2,), (3,), (2, 2)])
            cont = rng.choice(['ndarray', 'list', 'tuple'])
            k = rng.choice(nonnull)
            size = int(np.prod(shape))
            fin = np.array([rng.choice((1.0, -1.0)) for _ in range(size)], dtype=float).reshape(shape)   # float: integer dtypes hit known finding F10
            oth = fin.copy().reshape(-1)
            for j in rng.sample(range(size), rng.randint(1, size)):
                oth[j] = -oth[j]
            oth = oth.reshape(shape)
            mk = lambda arr: MultiVector.fromkeysvalues(alg, (k,), np.stack([arr]) if cont == 'ndarray' else (tuple([arr]) if cont == 'tuple' else [arr]))   # noqa: E731
            b = mk(oth)
            try:
                b.inv()
            except Exception:   # noqa: BLE001
                pass
            b[Ellipsis] = mk(fin.copy())
            if not np.array_equal(np.asarray(b.values()[0]), fin):
                continue
            raised, res = '', None
            try:
                res = b.inv()
            except Exception as e:   # noqa: BLE001
                raised = type(e).__name__
            ev = {'id': eid, 'kind': 'bcast', 'op': 'inv', 'params': [], 'args': [rec_arr(b)], 'raised': raised,
                  'res': {'keys': [], 'shape': [], 'flat': []}, 'lanes': [[l_] for l_ in range(size)]}
            if res is not None:
                ev['res'] = {'keys': [int(x) for x in res.keys()], 'shape': list(shape),
                             'flat': [ints(np.broadcast_to(np.asarray(v), shape)) for v in res.values()]}
            events.append(ev)
        except (K.EncodeError, ValueError, OverflowError) as e:
            skipped.append([eid, 'inv', str(e)[:80]])
    # ---- (b) indexing and assignment through a multivector --------------------------------------
    idx_pool = [0, -1, slice(None), slice(1, None), slice(None, None, 2), (0,), (slice(None), 0), (1, slice(None)), (-1, -1),
                (slice(0, 1), slice(None)), Ellipsis, (Ellipsis, 0),
                # advanced indexing: lists of ints, integer arrays, boolean masks (numpy returns copies for these)
                [0, 1], [1, 0], 'intarray', 'mask']
    for ci in range(n // 2):
        eid = f"{job['prefix']}:i{ci}"
        shape = rng.choice([(3,), (2, 2), (4,), (2, 3), (3, 2)])
        cont = rng.choice(['ndarray', 'list'])
        x = array_mv(rand_keys(3), shape, cont)
        other = array_mv(rand_keys(2), shape, 'list')
        idx = rng.choice(idx_pool)
        if idx == 'intarray':
            idx = np.array([shape[0] - 1, 0])
        elif idx == 'mask':
            idx = np.array([rng.random() < 0.5 for _ in range(shape[0])])
            if not idx.any():
                idx[0] = True
        labels = np.arange(int(np.prod(shape))).reshape(shape)
        try:
            pos = np.asarray(labels[idx]).reshape(-1)
        except IndexError:
            continue
        if len(set(int(p) for p in pos)) != len(pos):
            continue
        before = rec_arr(x)
        if rng.random() < 0.5:
            ev = {'id': eid, 'kind': 'getitem', 'index': repr(idx), 'container': cont, 'before': before, 'pos': [int(p) for p in pos], 'raised': '',
                  'res': {'keys': [], 'shape': [], 'flat': []}, 'after': before}
            try:
                r = x[idx]
                ev['res'] = {'keys': [int(k) for k in r.keys()], 'shape': [], 'flat': [[int(v) for v in np.asarray(c).reshape(-1)] for c in r.values()]}
            except Exception as e:   # noqa: BLE001
                ev['raised'] = type(e).__name__
            ev['after'] = rec_arr(x)
        else:
            tgt = np.asarray(labels[idx])
            # a plain sequence of one number per coefficient is only meaningful for list-backed multivectors
            # (an ndarray-backed one hands it to numpy broadcasting); arrays of the addressed shape and
            # multivectors are meaningful for both
            mode = rng.choice(['scalar_each', 'array_each', 'mv', 'mv_perm', 'mv_scalar'] if cont == 'list' else ['array_each', 'mv', 'mv_perm', 'mv_scalar'])
            if mode == 'mv_perm' and len(x.keys()) < 2:
                mode = 'mv'
            if mode in ('scalar_each', 'mv_scalar'):
                vals = [rng.randint(10, 99) for _ in x.keys()]
                assigned = [[v] * len(pos) for v in vals]
                # mv_scalar: a MULTIVECTOR with plain-number coefficients: coefficient k goes to the addressed entries of coefficient k
                rhs = vals if mode == 'scalar_each' else MultiVector.fromkeysvalues(alg, x.keys(), list(vals))
            else:
                arrs = [np.array([rng.randint(10, 99) for _ in range(tgt.size)], dtype=np.int64).reshape(tgt.shape) for _ in x.keys()]
                assigned = [[int(v) for v in a.reshape(-1)] for a in arrs]
                rhs = arrs if mode == 'array_each' else MultiVector.fromkeysvalues(alg, x.keys(), arrs)
                if mode == 'mv_perm':      # the same element as in mode 'mv', its blades stored in another order
                    perm = list(range(len(x.keys())))
                    while perm == sorted(perm):
                        rng.shuffle(perm)
                    rhs = MultiVector.fromkeysvalues(alg, tuple(x.keys()[i] for i in perm), [arrs[i] for i in perm])
            ob = rec_arr(other)
            ev = {'id': eid, 'kind': 'setitem', 'index': repr(idx), 'container': cont, 'mode': mode, 'before': before, 'pos': [int(p) for p in pos],
                  'assigned': assigned, 'raised': '', 'after': before, 'otherbefore': ob, 'otherafter': ob}
            try:
                x[idx] = rhs
            except Exception as e:   # noqa: BLE001
                ev['raised'] = type(e).__name__
            ev['after'] = rec_arr(x)
            ev['otherafter'] = rec_arr(other)
        events.append(ev)
    # ---- (b2) itermv / shape: the multivectors inside an array-valued multivector ---------------------
    for ci in range(max(2, n // 4)):
        eid = f"{job['prefix']}:t{ci}"
        shape = rng.choice([(3,), (2, 2), (4,), (2, 3), (3, 2), (2, 1, 2)])
        cont = rng.choice(['ndarray', 'list'])
        x = array_mv(rand_keys(3), shape, cont)
        before = rec_arr(x, shape)
        ev = {'id': eid, 'kind': 'itermv', 'container': cont, 'before': before, 'after': before, 'raised': '', 'shape': [], 'items': []}
        try:
            ev['shape'] = [int(v) for v in x.shape]
            ev['items'] = [{'keys': [int(k) for k in m.keys()], 'vals': [int(v) for v in m.values()]} for m in x.itermv()]
        except Exception as e:   # noqa: BLE001
            ev['raised'] = type(e).__name__
        ev['after'] = rec_arr(x, shape)
        if len(x.keys()):
            events.append(ev)
    # ---- (c) operand kinds on either side of infix and reflected operators ------------------------
    kinds = ['int', 'npint', 'npfloat', 'list', 'tuple', 'callable', 'callable2', 'float', 'callable_list', 'callable2_tuple']
    for ci in range(n):
        # infix operators, and the operators that only exist as methods through the algebra-level call alg.<op>(left, right)
        opname = rng.choice(job['infix'] + ['lc', 'rc', 'sp', 'cp', 'acp'])
        f = INFIX.get(opname) or (lambda a_, b_, o_=opname: getattr(alg, o_)(a_, b_))
        side = rng.choice(['left', 'right'])
        kind = rng.choice(kinds)
        eid0 = f"{job['prefix']}:r{ci}"
        ks = [rand_keys(3), rand_keys(3), rand_keys(2)]
        mvs = [MultiVector.fromkeysvalues(alg, k, [rng.choice([-3, -2, 2, 3, 5, 7]) for _ in k]) for k in ks]
        m0, m1, m2 = mvs
        num = rng.choice([2, 3, -2, 5])
        if kind == 'int':
            obj, resolved, cont = num, [num], 'single'
        elif kind == 'float':
            obj, resolved, cont = float(num), [num], 'single'
        elif kind == 'npint':
            obj, resolved, cont = np.int64(num), [num], 'single'
        elif kind == 'npfloat':
            obj, resolved, cont = np.float64(num), [num], 'single'
        elif kind == 'list':
            obj, resolved, cont = [m1, m2], [m1, m2], 'list'
        elif kind == 'tuple':
            obj, resolved, cont = (m1, m2), [m1, m2], 'tuple'
        elif kind == 'callable_list':       # a callable whose VALUE is a sequence: replaced by its value, then mapped over
            obj, resolved, cont = (lambda: [m1, m2]), [m1, m2], 'list'
        elif kind == 'callable2_tuple':
            obj, resolved, cont = (lambda: (lambda: (m1, m2))), [m1, m2], 'tuple'
        elif kind == 'callable':
            obj, resolved, cont = (lambda: m1), [m1], 'single'
        else:
            obj, resolved, cont = (lambda: (lambda: m1)), [m1], 'single'
        if opname == 'div' and kind not in ('int', 'float', 'npint', 'npfloat'):
            if side != 'left':
                continue
            # sequence / callable on the LEFT of a division (reflected division of every element): the divisor is a single
            # blade with a non-zero square, so the quotients are exact rationals
            good = [B for B in range(2 ** d) if alg.signs[B, B] != 0]
            if not good:
                continue
            m0 = MultiVector.fromkeysvalues(alg, (rng.choice(good),), [rng.choice([2, -2, 4])])
        elif opname == 'div' and side == 'left':
            continue
        raised, out = '', None
        try:
            out = f(obj, m0) if side == 'left' else f(m0, obj)
        except Exception as e:   # noqa: BLE001
            raised = type(e).__name__
        observed = 'single'
        outs = [out]
        if isinstance(out, list):
            observed, outs = 'list', out
        elif isinstance(out, tuple):
            observed, outs = 'tuple', list(out)
        for j, rz in enumerate(resolved):
            a, b = (rz, m0) if side == 'left' else (m0, rz)
            o = outs[j] if j < len(outs) else None
            try:
                def fn(x, y, o=o, raised=raised):
                    if raised:
                        raise _Replayed(raised)
                    return o
                ev = K.op_event(f'{eid0}.{j}', opname, [a, b], (), fn=fn, kind='resolve',
                                extra={'side': side, 'operand_kind': kind, 'container': observed if not raised else cont, 'expected_container': cont})
                if raised:
                    ev['raised'] = raised
                events.append(ev)
            except K.EncodeError as e:
                skipped.append([f'{eid0}.{j}', opname, str(e)[:80]])
    K.write_trace(job['out'], {'kind': 'cfg', 'u': u, 'opts': {'cse': True, 'graded': False, 'wrapper': False, 'symbolcls': '', 'pretty_blade': ''}}, events)
    return {'out': job['out'], 'events': len(events), 'skipped': skipped}


class _Replayed(Exception):
    def __init__(self, name):
        self.name = name


def _broadcastable(a, b):
    import numpy as np
    try:
        np.broadcast_shapes(a, b)
        return True
    except ValueError:
        return False


def run_jobs(jobs, procs=16):
    import multiprocessing as mp
    import kdriver as _K
    jobs = _K.filter_buildable(jobs)
    if not jobs:
        return []
    with mp.get_context('fork').Pool(min(procs, len(jobs))) as pool:
        return pool.map(run_job, jobs, chunksize=1)
