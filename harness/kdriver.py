"""Driving the real kingdon (imported from $KINGDON_SRC, default /repo) and recording events.

Nothing here decides a property: functions build algebras from *user-level configurations*
(the same records the TLA+ AlgebraModel interprets), build operands, call the public API and
write what happened as JSON events for the TLA+ trace specifications.
"""
import os
import sys
import json
import itertools
import warnings
from fractions import Fraction

KINGDON_SRC = os.environ.get('KINGDON_SRC', '/repo')
if sys.path[0] != KINGDON_SRC:
    sys.path.insert(0, KINGDON_SRC)
HERE = os.path.dirname(os.path.abspath(__file__))
if HERE not in sys.path:
    sys.path.insert(1, HERE)

import kingdon  # noqa: E402
from kingdon import Algebra, MultiVector  # noqa: E402

assert os.path.realpath(kingdon.__file__).startswith(os.path.realpath(KINGDON_SRC) + os.sep), \
    f'kingdon imported from {kingdon.__file__}, expected under {KINGDON_SRC}'

from generic import G, lift  # noqa: E402

warnings.filterwarnings('ignore', category=RuntimeWarning)

HEX = '0123456789abcdef'


# ---------------------------------------------------------------------------------------------
# user-level configurations
# ---------------------------------------------------------------------------------------------
def ucfg(p=0, q=0, r=0, sig=None, start=None, basis=None):
    """User-level configuration record (see spec/AlgebraModel.tla)."""
    return {
        'mode': 'sig' if sig is not None else 'pqr',
        'p': p, 'q': q, 'r': r,
        'sig': list(sig) if sig is not None else [],
        'start': -1 if start is None else start,
        'basis': [[int(ch, 16) for ch in name[1:]] for name in basis] if basis else [],
    }


def basis_names(u):
    return ['e' + ''.join(HEX[x] for x in name) for name in u['basis']]


def make_algebra(u, **opts):
    kw = dict(opts)
    if u['basis']:
        kw['basis'] = basis_names(u)
    if u['start'] != -1:
        kw['start_index'] = u['start']
    if u['mode'] == 'sig':
        return Algebra(signature=list(u['sig']), **kw)
    return Algebra(u['p'], u['q'], u['r'], **kw)


def named_ucfg(name):
    """The named constructors are instances of the custom-basis form (algebra.py fromname)."""
    if name == '2DPGA':
        return ucfg(2, 0, 1, basis=["e", "e1", "e2", "e0", "e20", "e01", "e12", "e012"])
    if name == '3DPGA':
        return ucfg(3, 0, 1, basis=["e", "e1", "e2", "e3", "e0", "e01", "e02", "e03", "e12", "e31", "e23",
                                    "e032", "e013", "e021", "e123", "e0123"])
    if name == 'STAP':
        return ucfg(3, 1, 1, basis=["e", "e0", "e1", "e2", "e3", "e4",
                                    "e01", "e02", "e03", "e40", "e12", "e31", "e23", "e41", "e42", "e43",
                                    "e234", "e314", "e124", "e123", "e014", "e024", "e034", "e032", "e013", "e021",
                                    "e0324", "e0134", "e0214", "e0123", "e1234", "e01234"])
    raise ValueError(name)


# ---------------------------------------------------------------------------------------------
# operands
# ---------------------------------------------------------------------------------------------
def generic_mv(alg, keys, operand_index, zero=()):
    """Multivector over `keys` (ordered) with one indeterminate per stored blade.  The
    indeterminate is named after the operand and the BLADE (not the position), so permuted or
    zero-padded operands denote the same element; positions listed in `zero` hold an explicit 0."""
    vals = [G.const(0) if pos in zero else G.var(operand_index * 1000 + int(k) + 1) for pos, k in enumerate(keys)]
    return MultiVector.fromkeysvalues(alg, tuple(keys), vals)


def _num(v):
    """JSON number spec -> python number: int, [n, d] -> Fraction, {'f': x} -> float"""
    if isinstance(v, list):
        return Fraction(v[0], v[1])
    if isinstance(v, dict):
        return float(v['f'])
    return v


def operand(alg, spec, operand_index):
    """spec: a key list (generic coefficients), {'keys': [...], 'zero': [positions]} (generic with
    explicit zeros), {'keys': [...], 'vals': [...]} (numbers: int, [n,d] fraction, {'f': float}),
    or {'num': v} (a plain python number, not a multivector)."""
    if isinstance(spec, dict):
        if 'num' in spec:
            return _num(spec['num'])
        if 'vals' in spec:
            return MultiVector.fromkeysvalues(alg, tuple(spec['keys']), [_num(v) for v in spec['vals']])
        return generic_mv(alg, spec['keys'], operand_index, tuple(spec.get('zero', ())))
    return generic_mv(alg, spec, operand_index)


def mv_from(alg, keys, vals):
    return MultiVector.fromkeysvalues(alg, tuple(keys), list(vals))


UNARY = {
    'neg': lambda a: -a, 'reverse': lambda a: ~a, 'involute': lambda a: a.involute(),
    'conjugate': lambda a: a.conjugate(), 'hodge': lambda a: a.hodge(), 'unhodge': lambda a: a.unhodge(),
    'polarity': lambda a: a.polarity(), 'unpolarity': lambda a: a.unpolarity(),
    'normsq': lambda a: a.normsq(), 'inv': lambda a: a.inv(),
    'outerexp': lambda a: a.outerexp(), 'outersin': lambda a: a.outersin(),
    'outercos': lambda a: a.outercos(), 'outertan': lambda a: a.outertan(),
    'id': lambda a: a,
    'dual': lambda a: a.dual(), 'undual': lambda a: a.undual(),
    # round trips and the defining relation of the Hodge dual (C05)
    'rt_hodge': lambda a: a.hodge().unhodge(), 'rt_unhodge': lambda a: a.unhodge().hodge(),
    'rt_polarity': lambda a: a.polarity().unpolarity(), 'rt_unpolarity': lambda a: a.unpolarity().polarity(),
    'rt_dual': lambda a: a.dual().undual(), 'rt_undual': lambda a: a.undual().dual(),
    'wedge_hodge': lambda a: a ^ a.hodge(),
    # the algebraic skeleton of exp with formal functions (C19): h(s) = s, f(l) = l + 1, g(l) = 2 l - 3
    'expf': lambda a: a.exp(cosh=lambda l: l + 1, sinhc=lambda l: 2 * l - 3, sqrt=lambda s: s),
}
BINARY = {
    'gp': lambda a, b: a * b, 'op': lambda a, b: a ^ b, 'ip': lambda a, b: a | b,
    'lc': lambda a, b: a.lc(b), 'rc': lambda a, b: a.rc(b), 'sp': lambda a, b: a.sp(b),
    'cp': lambda a, b: a.cp(b), 'acp': lambda a, b: a.acp(b), 'rp': lambda a, b: a & b,
    'sw': lambda a, b: a >> b, 'proj': lambda a, b: a @ b, 'add': lambda a, b: a + b,
    'sub': lambda a, b: a - b, 'div': lambda a, b: a / b,
    'mulinv': lambda a, b: a * b.inv(), 'rdiv': lambda a, b: a / b,
    # square of a wedge: over sympy coefficients its higher-grade parts vanish only after simplification (C09, C13)
    'wedge_sq': lambda a, b: (a ^ b) * (a ^ b),
}
# the method spellings of the same operators (must agree with the infix ones)
BINARY_METHOD = {
    'gp': lambda a, b: a.gp(b), 'op': lambda a, b: a.op(b), 'ip': lambda a, b: a.ip(b),
    'rp': lambda a, b: a.rp(b), 'sw': lambda a, b: a.sw(b), 'proj': lambda a, b: a.proj(b),
    'add': lambda a, b: a.add(b), 'sub': lambda a, b: a.sub(b), 'div': lambda a, b: a.div(b),
}


# configurations the library refused to build although the specification admits them (AlgebraModel!Admissible is
# what the checks draw them from).  Reported by Ctx.finish: a violation for C01 / C14, a counted note elsewhere
# (the property under check is vacuous for an algebra that cannot be built) -- never a harness crash.
REFUSED = []
_BUILD = {}


def buildable(u, opts=None):
    import json as _json
    key = _json.dumps([u, opts or {}], sort_keys=True, default=str)
    if key not in _BUILD:
        try:
            from drive_ops import algebra_options
            make_algebra(u, **algebra_options(opts or {}))
            _BUILD[key] = True
        except Exception as e:   # noqa: BLE001
            _BUILD[key] = False
            REFUSED.append({'u': u, 'opts': opts or {}, 'raised': type(e).__name__, 'message': str(e)[:200]})
    return _BUILD[key]


def filter_buildable(jobs):
    out = []
    for j in jobs:
        if isinstance(j, dict) and isinstance(j.get('u'), dict) and 'mode' in j['u']:
            # this test CREATES the algebra in the parent of the forked workers: where a sibling configuration is to come first
            # (pre_u: state shared between algebras of one process), it has to come first here as well
            if isinstance(j.get('pre_u'), dict) and 'mode' in j['pre_u']:
                buildable(j['pre_u'], j.get('opts'))
            if buildable(j['u'], j.get('opts')):
                out.append(j)
        elif isinstance(j, dict) and j.get('mix'):
            j2 = dict(j)
            j2['cases'] = [c for c in j['cases'] if buildable(c[0]) and buildable(c[1])]
            out.append(j2)
        else:
            out.append(j)
    return out


# spellings of one operator: infix / method of the multivector / the algebra's operator object called directly
ALGEBRA_LEVEL = {'gp', 'op', 'ip', 'lc', 'rc', 'sp', 'cp', 'acp', 'rp', 'sw', 'proj', 'add', 'sub', 'div', 'neg', 'reverse', 'involute',
                 'conjugate', 'hodge', 'unhodge', 'polarity', 'unpolarity', 'normsq', 'inv', 'outerexp', 'outersin', 'outercos', 'outertan'}
METHOD_LEVEL = {'gp', 'op', 'ip', 'rp', 'sw', 'proj', 'add', 'sub', 'div', 'neg', 'reverse'}


def apply_op_spelled(op, args, params=(), spelling='infix'):
    """The same operator through another public spelling; falls back to apply_op where that spelling does not exist."""
    if not list(params) and all(isinstance(a, MultiVector) for a in args):
        if spelling == 'algebra' and op in ALGEBRA_LEVEL:
            return getattr(args[0].algebra, op)(*args)
        if spelling == 'method' and op in METHOD_LEVEL:
            return getattr(args[0], op)(*args[1:])
    return apply_op(op, args, params)


def apply_op(op, args, params=()):
    # the four duality maps spelled through dual(kind=...) / undual(kind=...): same operator, params = [1]
    if op in ('hodge', 'unhodge', 'polarity', 'unpolarity') and list(params) == [1]:
        kind = 'hodge' if 'hodge' in op else 'polarity'
        return args[0].undual(kind=kind) if op.startswith('un') else args[0].dual(kind=kind)
    if op == 'grade':
        return args[0].grade(*params)
    if op == 'pow':
        return args[0] ** params[0]
    if op in UNARY:
        return UNARY[op](args[0])
    return BINARY[op](args[0], args[1])


# ---------------------------------------------------------------------------------------------
# recording
# ---------------------------------------------------------------------------------------------
INT_LIMIT = 2 ** 28


class EncodeError(Exception):
    """A value cannot be represented for TLC (too large, not rational, ...)."""


FLOAT_DIST = [0.0]      # largest distance between a recorded float and the fraction logged for it


def coef_to_G(v):
    if isinstance(v, G):
        return v
    if isinstance(v, float) or type(v).__name__ in ('float64', 'float32'):
        v = float(v)
        if v != v or v in (float('inf'), float('-inf')):
            raise EncodeError('non-finite float')
        # A float is logged as a fraction only if it IS that fraction to double precision: denominators up to
        # 10^4 and relative distance 1e-11 (an arbitrary real passes this test with probability ~1e-3; a
        # looser test would accept every float, since fractions with denominator <= Q are 1/Q^2-dense).
        f = Fraction(v).limit_denominator(10 ** 4)
        dist = abs(float(f) - v)
        if dist > 1e-11 * max(1.0, abs(v)):
            raise EncodeError('float result is not (to double precision) a fraction with denominator <= 10^4')
        FLOAT_DIST[0] = max(FLOAT_DIST[0], dist)
        return G.const(f)
    if hasattr(v, 'is_Rational') and getattr(v, 'is_Rational', False):   # sympy Integer/Rational
        return G.const(Fraction(int(v.p), int(v.q)))
    try:
        return lift(v)
    except TypeError as e:
        raise EncodeError(str(e))


def mv_record(mv, ring=None):
    """{keys, coefs} with coefficients as G; ring decided by the caller."""
    keys = [int(k) for k in mv.keys()]
    coefs = [coef_to_G(v) for v in mv.values()]
    return keys, coefs


def encode_mvs(mvs):
    """Encode several multivectors in one ring: returns (ring, [json mv...])."""
    recs = [mv_record(mv) for mv in mvs]
    ring = 'poly' if all(c.is_poly() for _, cs in recs for c in cs) else 'rat'
    out = []
    for k, cs in recs:
        if ring == 'rat' and cs and all(set(c.d) == {()} for c in cs):
            # numeric fractions: bring the coefficients of one multivector to their common
            # denominator, so that TLC adds numerators instead of multiplying denominators up
            from math import lcm
            D = lcm(*[c.d[()] for c in cs])
            js = [{'n': G._pjson({m: v * (D // c.d[()]) for m, v in c.n.items()}), 'd': [[D, []]]} for c in cs]
            big = max([D] + [abs(v) * (D // c.d[()]) for c in cs for v in c.n.values()])
        else:
            js = [c.to_json(ring) for c in cs]
            big = max([c.max_abs() for c in cs] + [0])
        if big >= INT_LIMIT:
            raise EncodeError('integer too large for TLC')
        out.append({'keys': k, 'coefs': js})
    return ring, out


def _magnitude_guard(op, params, mvs, nargs):
    """TLC has 32-bit integers.  A conservative bound on every intermediate of the verdict
    (products of the operands' and the result's numerators, products of denominators) must stay
    below 2^31, otherwise the event is not encodable (skipped and counted, never a verdict)."""
    return _magnitude_guard_G(op, params, [[coef_to_G(v) for v in mv.values()] for mv in mvs], nargs)


def _magnitude_guard_G(op, params, css, nargs):
    S, D = [], []
    for cs in css:
        if not cs:
            S.append(1)
            D.append(1)
            continue
        dens = [sum(abs(c) for c in g.d.values()) for g in cs]
        nums = [sum(abs(c) for c in g.n.values()) for g in cs]
        const = all(set(g.d) == {()} for g in cs)
        if const:
            from math import lcm
            L = lcm(*[g.d[()] for g in cs])
            S.append(max(1, sum(n * (L // g.d[()]) for n, g in zip(nums, cs))))
            D.append(L)
        else:
            S.append(max(1, sum(nums)))
            D.append(max(dens))
    mult = abs(params[0]) + 1 if op == 'pow' and params else (3 if op in ('sw', 'proj') else 2)
    bound = 1
    for i, (s_, d_) in enumerate(zip(S, D)):
        k = mult if i < nargs else 1
        bound *= (s_ ** k) * (d_ ** k)
    if bound >= 2 ** 31 and max(S + D) > 64:
        raise EncodeError('intermediate integers of the certificate may exceed 32 bits in TLC')


def op_event(eid, op, args, params=(), fn=None, kind='op', extra=None, witness=None):
    """Apply `op` through the public API and return the event record (never raises for
    exceptions of the library: they are part of the observation)."""
    raised, res = '', None
    try:
        res = (fn or (lambda *a: apply_op(op, a, params)))(*args)
        if not isinstance(res, MultiVector):
            raise EncodeError(f'result is {type(res).__name__}, not a multivector')
    except (EncodeError, KeyboardInterrupt):
        raise
    except Exception as e:    # noqa: BLE001 - the library's behaviour is what we record
        raised = type(e).__name__
    if callable(witness):
        witness = witness(raised)
    alg0 = next(a.algebra for a in args if isinstance(a, MultiVector))
    args = [a if isinstance(a, MultiVector) else mv_from(alg0, (0,), [a]) for a in args]
    mvs = list(args) + ([res] if res is not None else []) + ([witness] if witness is not None else [])
    ring, enc = encode_mvs(mvs)
    _magnitude_guard(op, params, mvs, len(args))
    ev = {'id': eid, 'kind': kind, 'op': op, 'ring': ring, 'args': enc[:len(args)],
          'params': [int(p) for p in params], 'raised': raised,
          'res': enc[len(args)] if res is not None else {'keys': [], 'coefs': []},
          'witness': enc[-1] if witness is not None else {'keys': [], 'coefs': []}}
    if extra:
        ev.update(extra)
    return ev


def write_trace(path, header, events):
    with open(path, 'w') as f:
        f.write(json.dumps(header) + '\n')
        for ev in events:
            f.write(json.dumps(ev) + '\n')


# ---------------------------------------------------------------------------------------------
# enumerations shared by drivers
# ---------------------------------------------------------------------------------------------
def all_key_tuples(d):
    """Every subset of the 2^d blades in every storage order (65 for d=2)."""
    blades = range(2 ** d)
    for n in range(2 ** d + 1):
        for sub in itertools.combinations(blades, n):
            yield from itertools.permutations(sub)


def all_signatures(d):
    return itertools.product((1, -1, 0), repeat=d)
