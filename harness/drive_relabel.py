"""C14 events: the same operator applied in a custom-basis algebra and, on relabelled operands, in
the default-basis algebra of the same signature (`relabel`); operands of two different algebras
(`mix`)."""
import os
import sys
import json
import signal

sys.path.insert(0, os.path.dirname(os.path.abspath(__file__)))


class _Timeout(Exception):
    pass


def _alarm(s, f):
    raise _Timeout()


def phi_table(u):
    """blade bitmask of the custom cfg -> (bitmask in the default cfg, sign); proposal only, TLC verifies."""
    import pyref
    d, metric, spell = pyref.bit_layout(u)
    vecs = [n[0] for n in u['basis'] if len(n) == 1]
    start = min(vecs)
    table = {}
    for name in u['basis']:
        bits = [vecs.index(x) for x in name]
        B = sum(1 << b for b in bits)
        pos = [x - start for x in name]
        inv = sum(1 for i in range(len(pos)) for j in range(i + 1, len(pos)) if pos[i] > pos[j])
        table[B] = (sum(1 << p_ for p_ in pos), -1 if inv % 2 else 1)
    return table, start


def default_of(u):
    import kdriver as K
    if u['mode'] == 'sig':
        usig = list(u['sig'])
    elif u['r'] == 1:
        usig = [0] * u['r'] + [1] * u['p'] + [-1] * u['q']
    else:
        usig = [1] * u['p'] + [-1] * u['q'] + [0] * u['r']
    vecs = [n[0] for n in u['basis'] if len(n) == 1]
    return K.ucfg(sig=usig, start=min(vecs))


def run_job(job):
    import kdriver as K
    from kingdon import MultiVector
    u = job['u']
    u0 = default_of(u)
    alg, alg0 = K.make_algebra(u), K.make_algebra(u0)
    phi, start = phi_table(u)
    events, skipped = [], []
    signal.signal(signal.SIGALRM, _alarm)
    for ci, (op, keylists, params) in enumerate(job['cases']):
        eid = f"{job['prefix']}:{ci}"
        try:
            signal.alarm(job.get('budget', 60))
            args = [K.generic_mv(alg, keys, n + 1) for n, keys in enumerate(keylists)]
            args0 = []
            for a in args:
                ks = [phi[int(k)][0] for k in a.keys()]
                vs = [v if phi[int(k)][1] > 0 else -v for k, v in zip(a.keys(), a.values())]
                args0.append(MultiVector.fromkeysvalues(alg0, tuple(ks), vs))

            def call(xs):
                try:
                    return K.apply_op(op, xs, params), ''
                except _Timeout:
                    raise
                except Exception as e:   # noqa: BLE001
                    return None, type(e).__name__
            res, raised = call(args)
            res0, raised0 = call(args0)
            mvs = args + args0 + [m for m in (res, res0) if m is not None]
            ring, enc = K.encode_mvs(mvs)
            n = len(args)
            empty = {'keys': [], 'coefs': []}
            ev = {'id': eid, 'kind': 'relabel', 'u': u, 'op': op, 'ring': ring, 'params': [int(p) for p in params],
                  'args': enc[:n], 'args0': enc[n:2 * n], 'raised': raised, 'raised0': raised0,
                  'res': enc[2 * n] if res is not None else empty,
                  'res0': enc[2 * n + (1 if res is not None else 0)] if res0 is not None else empty}
            signal.alarm(0)
            events.append(ev)
        except _Timeout:
            skipped.append([eid, op, 'time budget'])
            alg, alg0 = K.make_algebra(u), K.make_algebra(u0)
        except K.EncodeError as e:
            signal.alarm(0)
            skipped.append([eid, op, f'encode: {e}'])
        finally:
            signal.alarm(0)
    K.write_trace(job['out'], {'kind': 'cfg', 'u': u, 'opts': {'cse': True, 'graded': False, 'wrapper': False, 'symbolcls': '', 'pretty_blade': ''}}, events)
    return {'out': job['out'], 'events': len(events), 'skipped': skipped}


def run_mix_job(job):
    """pairs of configurations: x in A, y in B, every binary operator -> must raise unless A and B coincide"""
    import kdriver as K
    events = []
    for ci, (ua, ub, op) in enumerate(job['cases']):
        A, B = K.make_algebra(ua), K.make_algebra(ub)
        ka = tuple(list(A.canon2bin.values())[:3])
        kb = tuple(list(B.canon2bin.values())[:3])
        x = K.mv_from(A, ka, [2, 3, 5][:len(ka)])
        y = K.mv_from(B, kb, [7, 11, 13][:len(kb)])
        raised = ''
        try:
            K.apply_op(op, [x, y], [])
        except Exception as e:   # noqa: BLE001
            raised = type(e).__name__
        events.append({'id': f"{job['prefix']}:{ci}", 'kind': 'mix', 'ua': ua, 'ub': ub, 'op': op, 'raised': raised})
        # the same mixed call again once both algebras have GENERATED the operator for exactly these key patterns (the
        # compatibility check must guard every call, not only code generation)
        if len(A) == len(B):
            try:
                K.apply_op(op, [x, K.mv_from(A, kb, [7, 11, 13][:len(kb)])], [])
                K.apply_op(op, [K.mv_from(B, ka, [2, 3, 5][:len(ka)]), y], [])
            except Exception:   # noqa: BLE001  (e.g. a division by a null element: the cache may still be cold, the check is then as before)
                pass
            raised = ''
            try:
                K.apply_op(op, [x, y], [])
            except Exception as e:   # noqa: BLE001
                raised = type(e).__name__
            events.append({'id': f"{job['prefix']}:{ci}w", 'kind': 'mix', 'ua': ua, 'ub': ub, 'op': op, 'raised': raised})
    K.write_trace(job['out'], {'kind': 'cfg', 'u': job['cases'][0][0], 'opts': {'cse': True, 'graded': False, 'wrapper': False, 'symbolcls': '', 'pretty_blade': ''}}, events)
    return {'out': job['out'], 'events': len(events), 'skipped': []}


def _dispatch(job):
    return run_mix_job(job) if job.get('mix') else run_job(job)


def run_jobs(jobs, procs=16):
    import multiprocessing as mp
    import kdriver as _K
    jobs = _K.filter_buildable(jobs)
    if not jobs:
        return []
    with mp.get_context('fork').Pool(min(procs, len(jobs))) as pool:
        return pool.map(_dispatch, jobs, chunksize=1)
