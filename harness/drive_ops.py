"""Replay operator cases into the real library with generic coefficients and record `op` events.

A job is a dict
  {'u': user-level cfg, 'opts': {cse, graded, wrapper: bool, symbolcls: 'sympy'|None},
   'cases': [[op, [keys...], params], ...], 'out': trace path, 'prefix': event-id prefix,
   'fresh': bool (fresh algebra per case), 'budget': seconds per case}
Each job writes one trace file: header line (cfg) + one event per case.  Cases whose code
generation exceeds the per-case time budget are recorded as skipped (never as violations).
"""
import os
import sys
import json
import zlib
import signal
import time
import multiprocessing as mp

sys.path.insert(0, os.path.dirname(os.path.abspath(__file__)))


class _Timeout(Exception):
    pass


def _alarm(signum, frame):
    raise _Timeout()


def mark_wrapper(func):
    """A semantics-preserving stand-in for a JIT decorator (numba is not installed)."""
    def wrapped(*a):
        return func(*a)
    wrapped.__name__ = func.__name__
    wrapped.__wrapped__ = func
    return wrapped


def plain_wrapper(func):
    """A semantics-preserving wrapper that is a plain closure: it does NOT carry the wrapped function's __name__."""
    def inner(*a):
        return func(*a)
    return inner


def algebra_options(opts):
    kw = {}
    if 'cse' in opts:
        kw['cse'] = opts['cse']
    if opts.get('graded'):
        kw['graded'] = True
    if opts.get('wrapper') == 'plain':
        kw['wrapper'] = plain_wrapper
    elif opts.get('wrapper'):
        kw['wrapper'] = mark_wrapper
    if opts.get('symbolcls') == 'sympy':
        import sympy
        kw['codegen_symbolcls'] = sympy.Symbol
    if opts.get('pretty_blade'):
        kw['pretty_blade'] = opts['pretty_blade']
    if opts.get('simp_none'):
        kw['simp_func'] = None
    return kw


def _witness(K, u, alg, op, args, raised):
    """For a numeric operand on which inverse/division raised ZeroDivisionError: search a
    zero-divisor witness (verified by TLC, not here)."""
    if raised != 'ZeroDivisionError':
        return None
    import pyref
    from fractions import Fraction
    x = args[-1] if op in ('div', 'mulinv', 'rdiv') else args[0]
    if op == 'outertan':
        # outertan = outersin * inverse(outercos): the element that has no inverse is outercos(x) (the library only PROPOSES
        # the witness, TLC verifies it against its own outer cosine)
        try:
            x = args[0].outercos()
        except Exception:   # noqa: BLE001
            return None
    try:
        xd = {int(k): Fraction(K.coef_to_G(v).subs({})) for k, v in zip(x.keys(), x.values())}
    except Exception:   # noqa: BLE001  (generic operand: the null-blade rule of the spec applies)
        return None
    xd = {k: v for k, v in xd.items() if v}
    if not xd:
        return K.mv_from(alg, (0,), [1])       # x = 0: 0 * 1 = 0
    w = pyref.zero_divisor_witness(u, xd)
    if w is None:
        return None
    return K.mv_from(alg, tuple(w.keys()), list(w.values()))


def full_opts(opts):
    """Option record with every field present (TLA+ records need a fixed field set)."""
    return {'cse': bool(opts.get('cse', True)), 'graded': bool(opts.get('graded', False)), 'wrapper': bool(opts.get('wrapper', False)),
            'symbolcls': opts.get('symbolcls') or '', 'pretty_blade': opts.get('pretty_blade') or ''}


def law_event(K, eid, args):
    """C04: the involutions of x, y and of the library's own product x*y, recorded together."""
    x, y = args
    ev = {'id': eid, 'kind': 'law', 'op': 'law', 'raised': '', 'params': []}
    names = {}
    try:
        xy = x * y
        names = {'x': x, 'y': y, 'xy': xy, 'rx': ~x, 'ry': ~y, 'rxy': ~xy, 'ix': x.involute(), 'iy': y.involute(), 'ixy': xy.involute(),
                 'cx': x.conjugate(), 'cy': y.conjugate(), 'cxy': xy.conjugate(), 'rrx': ~(~x), 'iix': x.involute().involute(),
                 'ccx': x.conjugate().conjugate(), 'rix': ~(x.involute())}
    except Exception as e:   # noqa: BLE001
        ev['raised'] = type(e).__name__
        names = {k: x for k in ('x', 'y', 'xy', 'rx', 'ry', 'rxy', 'ix', 'iy', 'ixy', 'cx', 'cy', 'cxy', 'rrx', 'iix', 'ccx', 'rix')}
    ring, enc = K.encode_mvs(list(names.values()))
    ev['ring'] = ring
    for k, e_ in zip(names, enc):
        ev[k] = e_
    ev['args'] = [ev['x'], ev['y']]
    ev['res'] = ev['xy']
    return ev


def lawrp_event(K, eid, alg, keylists):
    """C04 on kingdon's OWN symbol class: multivectors whose coefficients are RationalPolynomial symbols (what
    register(symbolic=True) and code generation compute with).  Sums, differences and negation, the sum once more, and the
    operands read again afterwards (no operation may change its operands)."""
    from kingdon.polynomial import RationalPolynomial
    from drive_session import sympy_to_G
    sym2id = {}
    mvs = []
    # in half of the cases both operands are built from the SAME symbols (like terms meet when they are added)
    same = zlib.crc32(eid.encode()) % 2 == 0
    for i, keys in enumerate(keylists):
        letter = 'a' if same else 'ab'[i]
        for k in keys:
            sym2id[letter + alg.bin2canon[int(k)][1:]] = (1 if same else i + 1) * 1000 + int(k) + 1
        mvs.append(alg.multivector(name=letter, keys=tuple(int(k) for k in keys), symbolcls=RationalPolynomial.fromname))
    x, y = mvs

    def enc(mv):
        cs = []
        for v in mv.values():
            cs.append(sympy_to_G(v.tosympy() if hasattr(v, 'tosympy') else v, sym2id))
        return [int(k) for k in mv.keys()], cs
    ev = {'id': eid, 'kind': 'lawrp', 'op': 'lawrp', 'raised': '', 'params': []}
    recs = {'x': enc(x), 'y': enc(y)}
    try:
        s_ = x + y
        recs['sum'] = enc(s_)
        recs['diff'] = enc(x - y)
        recs['sum2'] = enc(x + y)
        recs['back'] = enc(s_ - x)
        recs['neg'] = enc(-x)
        recs['rev'] = enc(~x)
    except (ValueError, K.EncodeError):
        raise K.EncodeError('not encodable')
    except Exception as e:   # noqa: BLE001
        ev['raised'] = type(e).__name__
        for k in ('sum', 'diff', 'sum2', 'back', 'neg', 'rev'):
            recs.setdefault(k, recs['x'])
    recs['x_after'], recs['y_after'] = enc(x), enc(y)
    ev['ring'] = 'rat'
    for k, (keys, cs) in recs.items():
        ev[k] = {'keys': keys, 'coefs': [c.to_json('rat') for c in cs]}
    ev['args'] = [ev['x'], ev['y']]
    ev['res'] = ev['sum']
    return ev


def law3_event(K, eid, args):
    """C03: the products of x and y as the library computed them, recorded together."""
    x, y = args
    ev = {'id': eid, 'kind': 'law3', 'op': 'law3', 'raised': '', 'params': []}
    fields = ('x', 'y', 'xy', 'yx', 'wedge', 'ip', 'lc', 'rc', 'sp', 'cp', 'acp')
    try:
        names = {'x': x, 'y': y, 'xy': x * y, 'yx': y * x, 'wedge': x ^ y, 'ip': x | y, 'lc': x.lc(y), 'rc': x.rc(y), 'sp': x.sp(y),
                 'cp': x.cp(y), 'acp': x.acp(y)}
    except Exception as e:   # noqa: BLE001
        ev['raised'] = type(e).__name__
        names = {k: x for k in fields}
    ring, enc = K.encode_mvs(list(names.values()))
    ev['ring'] = ring
    for k, e_ in zip(names, enc):
        ev[k] = e_
    ev['args'] = [ev['x'], ev['y']]
    ev['res'] = ev['xy']
    return ev


def run_job(job):
    import kdriver as K
    u, opts = job['u'], job.get('opts', {})
    budget = job.get('budget', 30)
    other = None
    if job.get('pre_u'):      # the OTHER configuration is also CREATED first (tables shared per kind of algebra are filled by the first one)
        try:
            other = K.make_algebra(job['pre_u'], **algebra_options(opts))
        except Exception:   # noqa: BLE001
            other = None
    alg = K.make_algebra(u, **algebra_options(opts))
    events, skipped = [], []
    signal.signal(signal.SIGALRM, _alarm)
    cases = [(str(i), c) for i, c in enumerate(job['cases'])]
    # state must not leak between algebras of one process: the same cases are first run (unrecorded) on ANOTHER
    # configuration of the same dimension
    if job.get('pre_u'):
        try:
            if other is None:
                other = K.make_algebra(job['pre_u'], **algebra_options(opts))
            for _, (op, keylists, params) in cases:
                if op in ('law', 'law3', 'lawrp'):
                    continue
                signal.alarm(budget)
                try:
                    K.apply_op(op, [K.operand(other, spec, n + 1) for n, spec in enumerate(keylists)], params)
                except Exception:   # noqa: BLE001
                    pass
                finally:
                    signal.alarm(0)
        except Exception:   # noqa: BLE001
            pass
    # second pass: revisit a sample of the shard's cases in another order, on the same algebra
    # (the cached functions must still be the right ones after everything generated since)
    if job.get('revisit') and not job.get('fresh'):
        import random
        rr = random.Random(job.get('seed', 0))
        again = rr.sample(cases, max(1, int(len(cases) * job['revisit'])))
        rr.shuffle(again)
        cases = cases + [(i + 'r', c) for i, c in again]
    for i, (op, keylists, params) in cases:
        if job.get('fresh'):
            alg = K.make_algebra(u, **algebra_options(opts))
        eid = f"{job['prefix']}:{i}"
        args = [K.operand(alg, spec, n + 1) for n, spec in enumerate(keylists)]
        signal.alarm(budget)
        try:
            if op == 'lawrp':
                ev = lawrp_event(K, eid, alg, keylists)
                signal.alarm(0)
                events.append(ev)
                continue
            if op in ('law', 'law3'):
                ev = law_event(K, eid, args) if op == 'law' else law3_event(K, eid, args)
                signal.alarm(0)
                events.append(ev)
                continue
            # the public spelling of the operator varies from case to case (deterministically): infix / method / algebra level
            sp = ('infix', 'infix', 'method', 'algebra')[zlib.crc32(f"{eid}|{op}".encode()) % 4]
            ev = K.op_event(eid, op, args, params, extra=job.get('extra'), fn=(lambda *a_, sp=sp: K.apply_op_spelled(op, a_, params, sp)),
                            witness=(lambda raised: _witness(K, u, alg, op, args, raised)) if job.get('witness') else None)
            ev['spelling'] = sp
            signal.alarm(0)
            events.append(ev)
        except _Timeout:
            skipped.append([eid, op, keylists, 'time budget'])
            alg = K.make_algebra(u, **algebra_options(opts))   # state may be half-built
        except K.EncodeError as e:
            signal.alarm(0)
            skipped.append([eid, op, keylists, f'encode: {e}'])
        finally:
            signal.alarm(0)
    K.write_trace(job['out'], {'kind': 'cfg', 'u': u, 'opts': full_opts(opts)}, events)
    return {'out': job['out'], 'events': len(events), 'skipped': skipped}


def run_jobs(jobs, procs=16):
    import kdriver as _K
    jobs = _K.filter_buildable(jobs)
    if not jobs:
        return []
    ctx = mp.get_context('fork')
    with ctx.Pool(min(procs, len(jobs))) as pool:
        return pool.map(run_job, jobs, chunksize=1)


def lookup_event(trace_file, eid):
    with open(trace_file) as f:
        header = json.loads(f.readline())
        for line in f:
            ev = json.loads(line)
            if ev.get('id') == eid:
                return header, ev
    return None, None


def split_cases(cases, n):
    """Split a case list into at most n contiguous shards of similar size."""
    n = max(1, min(n, len(cases)))
    k, m = divmod(len(cases), n)
    out, s = [], 0
    for i in range(n):
        e = s + k + (1 if i < m else 0)
        out.append(cases[s:e])
        s = e
    return [c for c in out if c]
