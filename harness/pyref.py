"""A plain-Python mirror of the TLA+ reference signs, used ONLY to search for certificates
(zero-divisor witnesses, inputs in a stated domain).  It never judges: every certificate it
produces is verified by TLC against the TLA+ reference."""
from fractions import Fraction


def bit_layout(u):
    """(d, metric per bit, spelling per blade as list of bits) from a user-level cfg."""
    if u['mode'] == 'sig':
        usig = list(u['sig'])
    elif u['r'] == 1:
        usig = [0] * u['r'] + [1] * u['p'] + [-1] * u['q']
    else:
        usig = [1] * u['p'] + [-1] * u['q'] + [0] * u['r']
    d = len(usig)
    if u['basis']:
        vecs = [n[0] for n in u['basis'] if len(n) == 1]
        start = min(vecs)
        gen = vecs
    else:
        start = u['start'] if u['start'] != -1 else (0 if usig.count(0) == 1 else 1)
        gen = [j + start for j in range(d)]
    pos = {n: j for j, n in enumerate(gen)}
    metric = [usig[gen[j] - start] for j in range(d)]
    spell = {}
    if u['basis']:
        for name in u['basis']:
            bits = [pos[x] for x in name]
            spell[sum(1 << b for b in bits)] = bits
    else:
        for B in range(2 ** d):
            spell[B] = [j for j in range(d) if B >> j & 1]
    return d, metric, spell


def _orient(sp):
    inv = sum(1 for i in range(len(sp)) for j in range(i + 1, len(sp)) if sp[i] > sp[j])
    return -1 if inv % 2 else 1


def sign_table(u):
    d, metric, spell = bit_layout(u)
    ori = {B: _orient(sp) for B, sp in spell.items()}

    def asc(A, B):
        s = 1
        for i in range(d):
            if A >> i & 1:
                for j in range(d):
                    if B >> j & 1 and i > j:
                        s = -s
        for g in range(d):
            if A >> g & 1 and B >> g & 1:
                s *= metric[g]
        return s
    return d, lambda A, B: ori[A] * ori[B] * ori[A ^ B] * asc(A, B)


def left_mult_matrix(u, x):
    """Matrix of w -> x*w over Fractions; x: dict blade -> Fraction."""
    d, sgn = sign_table(u)
    n = 2 ** d
    M = [[Fraction(0)] * n for _ in range(n)]
    for A, a in x.items():
        for J in range(n):
            s = sgn(A, J)
            if s:
                M[A ^ J][J] += s * a
    return M


def null_vector(M):
    """A non-zero integer vector in the kernel of M (Fractions), or None."""
    n = len(M)
    M = [row[:] for row in M]
    piv_cols, r = [], 0
    for c in range(n):
        p = next((i for i in range(r, n) if M[i][c] != 0), None)
        if p is None:
            continue
        M[r], M[p] = M[p], M[r]
        pv = M[r][c]
        M[r] = [v / pv for v in M[r]]
        for i in range(n):
            if i != r and M[i][c] != 0:
                f = M[i][c]
                M[i] = [a - f * b for a, b in zip(M[i], M[r])]
        piv_cols.append(c)
        r += 1
        if r == n:
            break
    free = [c for c in range(n) if c not in piv_cols]
    if not free:
        return None
    f = free[0]
    w = [Fraction(0)] * n
    w[f] = Fraction(1)
    for i, c in enumerate(piv_cols):
        w[c] = -M[i][f]
    from math import lcm
    D = lcm(*[x.denominator for x in w])
    return [int(x * D) for x in w]


def zero_divisor_witness(u, x):
    """Non-zero w with x*w = 0, as dict blade -> int, or None if x is invertible."""
    w = null_vector(left_mult_matrix(u, x))
    if w is None:
        return None
    return {B: v for B, v in enumerate(w) if v}
