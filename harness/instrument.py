"""Observation of the generate/compile/cache/dispatch machinery of one Algebra from OUTSIDE
(no source hooks):

  * `alg.numspace` and every `OperatorDict.operator_dict` are replaced by LoggedDict, a dict
    subclass that records contains / get / set -- the linearisation points of the model's Lookup,
    PubNames, PubCache, Dispatch and (because a compiled registered function uses numspace as its
    globals) of call-time name resolution;
  * `sys.addaudithook`: a `compile` event whose caller is kingdon/codegen.py is a generation;
  * `sys.monitoring` PY_START on the code objects of generated functions: which function RAN.

The raw observations are translated to the event vocabulary of spec/Kingdon.tla:
  Begin, Lookup(hit), PubNames(name, fn), PubCache, NameRead(name, fn), Ran(fn), Compile,
  Return, Raise.
A function is identified by what it was generated for: fn = [operator name, ordered pattern].
"""
import sys
import threading

_TOOL = 3
_state = {'audit_installed': False, 'monitor_installed': False, 'rec': None}


def _pat_json(pat):
    """operator_dict keys: unary -> key tuple; n-ary -> tuple of key tuples.  A key that is not a tuple (e.g. a
    generator) is never iterated by the observer: it is logged as the marker pattern [[-1]]."""
    if not isinstance(pat, (tuple, list)):
        return [[-1]]
    if pat and isinstance(pat[0], (tuple, list)):
        return [[int(k) for k in kt] for kt in pat]
    if pat == () or (pat and isinstance(pat[0], int)):
        return [[int(k) for k in pat]]
    return [[int(k) for k in kt] for kt in pat]


CONFIG_FIELDS = ('p', 'q', 'r', 'd', 'start_index', 'cse', 'graded', 'wrapper', 'codegen_symbolcls', 'simp_func', 'pretty_blade', 'basis')


def config_snapshot(alg):
    """The configuration of an Algebra: constants of the model (Kingdon.tla: Wrapper, ...).  Taken once after creation."""
    snap = {f: getattr(alg, f, None) for f in CONFIG_FIELDS}
    snap['signature'] = tuple(int(x) for x in alg.signature)
    alg.__dict__['_verif_config'] = snap
    return snap


def config_changed(alg):
    """'' if every configuration field is what it was after creation, else the name of the first changed field."""
    snap = alg.__dict__.get('_verif_config')
    if snap is None:
        return ''
    for f in CONFIG_FIELDS:
        a, b = getattr(alg, f, None), snap[f]
        if a is not b and not (isinstance(a, (int, bool, str, list, tuple)) and a == b):
            return f
    if tuple(int(x) for x in alg.signature) != snap['signature']:
        return 'signature'
    return ''


class Recorder:
    def __init__(self, yield_hook=None):
        self.events = []
        self.lock = threading.RLock()
        self.seq = 0
        self.code_fn = {}        # id(code object) -> fn (code objects compare by VALUE, so identity is used)
        self.keep = []           # keeps the code objects alive (ids stay unique)
        self.gen_stack = {}      # thread name -> stack of [op, pat] being generated
        self.enabled = True
        self.compiles = 0
        self.compiled_sources = set()
        self.yield_hook = yield_hook     # cooperative scheduler: called at every dict operation

    def tname(self):
        return threading.current_thread().name

    def log(self, k, **kw):
        with self.lock:
            self.seq += 1
            e = {'k': k, 't': self.tname(), 'seq': self.seq}
            e.update(kw)
            self.events.append(e)
            return e

    def point(self, label):
        if self.yield_hook is not None and self.enabled:
            self.yield_hook(label)


class LoggedDict(dict):
    """dict that reports its operations to a Recorder.  role: 'numspace' or an operator name."""

    def __init__(self, rec, role, *a, **kw):
        super().__init__(*a, **kw)
        self._rec = rec
        self._role = role

    # -- operator caches ---------------------------------------------------------------------
    def __contains__(self, key):
        r = self._rec
        if r.enabled:
            r.point(('contains', self._role))
        res = dict.__contains__(self, key)
        if r.enabled and self._role != 'numspace':
            pat = _pat_json(key)
            r.log('Lookup', op=self._role, pat=pat, hit=bool(res))
            if not res:
                r.gen_stack.setdefault(r.tname(), []).append([self._role, pat])
        return res

    def __setitem__(self, key, value):
        r = self._rec
        if r.enabled:
            r.point(('set', self._role))
        if r.enabled and self._role == 'numspace':
            st = r.gen_stack.get(r.tname(), [])
            fn = st[-1] if st else ['?', []]
            f = getattr(value, '__wrapped__', value)
            code = getattr(f, '__code__', None)
            if code is not None:
                with r.lock:
                    r.code_fn[id(code)] = fn
                    r.keep.append(code)
                _watch(code)
            r.log('PubNames', name=str(key), fn=fn)
        elif r.enabled:
            pat = _pat_json(key)
            st = r.gen_stack.get(r.tname(), [])
            if st and st[-1] == [self._role, pat]:
                st.pop()
            func = value[1] if isinstance(value, tuple) and len(value) == 2 else None
            code = getattr(getattr(func, '__wrapped__', func), '__code__', None)
            if code is not None:
                with r.lock:
                    r.code_fn[id(code)] = [self._role, pat]
                    r.keep.append(code)
                _watch(code)
            kout = [int(k) for k in value[0]] if isinstance(value, tuple) else []
            r.log('PubCache', op=self._role, pat=pat, kout=kout, fname=getattr(func, '__name__', ''))
        dict.__setitem__(self, key, value)

    def __getitem__(self, key):
        r = self._rec
        if r.enabled:
            r.point(('get', self._role))
        val = dict.__getitem__(self, key)
        if r.enabled and self._role == 'numspace':
            f = getattr(val, '__wrapped__', val)
            fn = r.code_fn.get(id(getattr(f, '__code__', None)), ['?', []])
            r.log('NameRead', name=str(key), fn=fn)
        return val

    def get(self, key, default=None):
        if dict.__contains__(self, key):
            return self[key]
        r = self._rec
        if r.enabled and self._role != 'numspace':
            # a cache miss observed through .get(): the same linearisation point as `in`
            pat = _pat_json(key)
            r.log('Lookup', op=self._role, pat=pat, hit=False)
            r.gen_stack.setdefault(r.tname(), []).append([self._role, pat])
        return default


def _watch(code):
    if not _state['monitor_installed']:
        return
    try:
        sys.monitoring.set_local_events(_TOOL, code, sys.monitoring.events.PY_START)
    except Exception:   # noqa: BLE001
        pass


def _py_start(code, offset):
    r = _state['rec']
    if r is not None and r.enabled:
        fn = r.code_fn.get(id(code))
        if fn is not None:
            r.log('Ran', fn=fn, fname=code.co_name)


def _audit(event, args):
    if event != 'compile':
        return
    r = _state['rec']
    if r is None or not r.enabled:
        return
    f = sys._getframe(1)
    # the audit hook is called from inside compile(); the caller frame is the python frame that called it
    fname = f.f_code.co_filename
    if fname.endswith('kingdon/codegen.py') or fname.endswith('kingdon\\codegen.py'):
        # what is compiled: name of the generated function and a digest of its source text; `again` = the very same text
        # was compiled before in this session (one algebra per session)
        src = args[0] if args else None
        if isinstance(src, bytes):
            src = src.decode('utf8', 'replace')
        name, again = '', False
        if isinstance(src, str):
            import re as _re
            import hashlib as _hl
            m = _re.search(r'def\s+(\w+)\s*\(', src)
            name = m.group(1) if m else ''
            key = (name, _hl.md5(src.encode()).hexdigest())
            with r.lock:
                again = key in r.compiled_sources
                r.compiled_sources.add(key)
        with r.lock:
            r.compiles += 1
        r.log('Compile', where=f.f_code.co_name, where2=(f.f_back.f_code.co_name if f.f_back else ''), fname=name, again=again)


def install(rec):
    """Process-wide hooks (audit hooks cannot be removed; they are inert when rec.enabled is False)."""
    _state['rec'] = rec
    if not _state['audit_installed']:
        sys.addaudithook(_audit)
        _state['audit_installed'] = True
    if not _state['monitor_installed']:
        try:
            sys.monitoring.use_tool_id(_TOOL, 'kingdon-verif')
            sys.monitoring.register_callback(_TOOL, sys.monitoring.events.PY_START, _py_start)
            _state['monitor_installed'] = True
        except Exception:   # noqa: BLE001
            _state['monitor_installed'] = False


def instrument(alg, rec):
    """Replace the algebra's caches by logging dicts (keeps existing content)."""
    install(rec)
    alg.numspace = LoggedDict(rec, 'numspace', alg.numspace)
    for name, od in list(alg.registry.items()):
        role = name if isinstance(name, str) else getattr(od, 'name', str(name))
        od.operator_dict = LoggedDict(rec, role, od.operator_dict)
    config_snapshot(alg)
    return alg


def instrument_registry_entry(od, rec, role):
    od.operator_dict = LoggedDict(rec, role, od.operator_dict)
    return od
