"""C07 `adj` events: kingdon's inverse generators observed at their intermediate level.

For a key pattern the library creates a symbolic multivector (its own code-generation symbols) and runs
codegen_inv -> codegen_hitzer_inv (d < 6) / codegen_shirokov_inv (d >= 6), which return the pair
(numerator multivector, scalar denominator) as polynomials in those symbols.  The harness does the same
through the same functions, evaluates the polynomials at an integer point and logs the integers; TLC
validates them against spec/InverseModel.tla (TraceInverse)."""
import os
import sys
import json
import random
import signal

sys.path.insert(0, os.path.dirname(os.path.abspath(__file__)))
GARBAGE = 10 ** 6 + 7


class _Timeout(Exception):
    pass


def _alarm(s, f):
    raise _Timeout()


def run_job(job):
    import sympy
    import kdriver as K
    from kingdon import codegen as CG
    rng = random.Random(job['seed'])
    u = job['u']
    alg = K.make_algebra(u)
    d = alg.d
    events, skipped = [], []
    signal.signal(signal.SIGALRM, _alarm)

    def evaluate(v, point):
        """integer value of a code-generation expression at the integer point"""
        if hasattr(v, 'tosympy'):
            v = v.tosympy()
        if isinstance(v, sympy.Basic):
            v = v.subs(point)
            v = sympy.nsimplify(v, rational=True) if v.is_Float else v
            if not v.is_number:
                return GARBAGE
            f = float(v)
        else:
            f = float(v)
        r = round(f)
        if abs(f - r) > 1e-6 * max(1.0, abs(f)) or abs(r) >= 2 ** 28:
            return GARBAGE
        return int(r)

    for ci, (gen, keys, vals) in enumerate(job['cases']):
        eid = f"{job['prefix']}:{ci}"
        ev = {'id': eid, 'kind': 'adj', 'gen': gen, 'x': {'keys': [int(k) for k in keys], 'vals': [int(v) for v in vals]},
              'num': {'keys': [], 'vals': []}, 'den': 0, 'raised': ''}
        try:
            signal.alarm(job.get('budget', 120))
            xs = alg.multivector(name='a', keys=tuple(keys), symbolcls=alg.inv.codegen_symbolcls)
            point = {}
            for sym, val in zip(xs.values(), vals):
                s = sym.tosympy() if hasattr(sym, 'tosympy') else sym
                point[s] = val
            fn = {'hitzer': CG.codegen_hitzer_inv, 'shirokov': CG.codegen_shirokov_inv, 'dispatch': CG.codegen_inv}[gen]
            try:
                num, den = fn(xs, symbolic=True)
                ev['num'] = {'keys': [int(k) for k in num.keys()], 'vals': [evaluate(v, point) for v in num.values()]}
                ev['den'] = evaluate(den, point)
            except _Timeout:
                raise
            except Exception as e:   # noqa: BLE001
                ev['raised'] = type(e).__name__
            signal.alarm(0)
            events.append(ev)
        except _Timeout:
            skipped.append([eid, gen, 'time budget'])
    K.write_trace(job['out'], {'kind': 'cfg', 'u': u, 'opts': {'cse': True, 'graded': False, 'wrapper': False, 'symbolcls': '', 'pretty_blade': ''}}, events)
    return {'out': job['out'], 'events': len(events), 'skipped': skipped}


def run_jobs(jobs, procs=16):
    import multiprocessing as mp
    import kdriver as _K
    jobs = _K.filter_buildable(jobs)
    if not jobs:
        return []
    with mp.get_context('fork').Pool(min(procs, len(jobs))) as pool:
        return pool.map(run_job, jobs, chunksize=1)
