"""C18 events: matrix representations (`matrixrep`) and expr_as_matrix (`exprmat`)."""
import os
import sys
import json
import random
import zlib

sys.path.insert(0, os.path.dirname(os.path.abspath(__file__)))


def triples(M):
    import numpy as np
    M = np.asarray(M)
    out = []
    for i in range(M.shape[0]):
        for j in range(M.shape[1]):
            v = M[i, j]
            if v != 0:
                if float(v) != int(v):
                    raise ValueError('non-integer matrix entry')
                out.append([i, j, int(v)])
    return out


def matrixrep_event(eid, u, seed):
    import kdriver as K
    from kingdon import MultiVector
    rng = random.Random(seed)
    ev = {'id': eid, 'kind': 'matrixrep', 'u': u, 'raised': '', 'blades': [], 'samples': [], 'pairs': []}
    try:
        alg = K.make_algebra(u)
        for name, B in alg.canon2bin.items():
            x = MultiVector.fromkeysvalues(alg, (B,), [1])
            ev['blades'].append([int(B), triples(x.asmatrix())])
        n = 2 ** alg.d
        for _ in range(3):
            keys = rng.sample(range(n), rng.randint(1, min(n, 5)))
            coefs = [rng.choice([-3, -2, -1, 1, 2, 3, 5]) for _ in keys]
            x = MultiVector.fromkeysvalues(alg, tuple(keys), coefs)
            M = x.asmatrix()
            back = MultiVector.frommatrix(alg, M)
            ev['samples'].append({'keys': [int(k) for k in keys], 'coefs': coefs, 'triples': triples(M),
                                  'back': {'keys': [int(k) for k in back.keys()], 'coefs': [int(v) for v in back.values()]}})
        # the homomorphism clause on the library's own matrices, python-int coefficients of several magnitudes
        for _ in range(3):
            mag = rng.choice([3, 40, 40, 300])
            kx = rng.sample(range(n), rng.randint(1, min(n, 3)))
            ky = rng.sample(range(n), rng.randint(1, min(n, 3)))
            cx = [rng.choice([-1, 1]) * rng.randint(max(1, mag // 3), mag) for _ in kx]
            cy = [rng.choice([-1, 1]) * rng.randint(max(1, mag // 3), mag) for _ in ky]
            pr = {'x': {'keys': [int(k) for k in kx], 'coefs': cx}, 'y': {'keys': [int(k) for k in ky], 'coefs': cy}, 'raised': '', 'matmul': [], 'ofprod': []}
            try:
                x = MultiVector.fromkeysvalues(alg, tuple(kx), cx)
                y = MultiVector.fromkeysvalues(alg, tuple(ky), cy)
                pr['matmul'] = triples(x.asmatrix() @ y.asmatrix())
                Mp = (x * y).asmatrix()
                import numpy as _np
                if _np.ndim(Mp) != 2:       # e.g. the number 0 for the zero multivector: not a matrix
                    pr['raised'] = f'asmatrix_returned_{type(Mp).__name__}_instead_of_a_matrix'
                else:
                    pr['ofprod'] = triples(Mp)
            except ValueError:
                raise
            except Exception as e:   # noqa: BLE001
                pr['raised'] = type(e).__name__
            ev['pairs'].append(pr)
    except Exception as e:   # noqa: BLE001
        ev['raised'] = type(e).__name__
    return ev


def exprmat_events(prefix, u, seed, n):
    import numpy as np
    import sympy
    import kdriver as K
    import programs as P
    from kingdon import MultiVector
    from kingdon.matrixreps import expr_as_matrix
    from drive_session import sympy_to_G
    rng = random.Random(seed)
    alg = K.make_algebra(u)
    d = alg.d
    nb = 2 ** d
    events, skipped = [], []
    A1, A2 = ('arg', 1), ('arg', 2)
    linear = [('sw', [A1, A2], [], 'infix'), ('gp', [A1, A2], [], 'infix'), ('gp', [A2, A1], [], 'infix'),
              ('gp', [('gp', [A1, A2], [], 'infix'), ('reverse', [A1], [], 'infix')], [], 'infix'),
              ('op', [A2, A1], [], 'infix'), ('ip', [A1, A2], [], 'infix'), ('cp', [A1, A2], [], 'method'),
              ('add', [('gp', [A1, A2], [], 'infix'), A2], [], 'infix'), ('sub', [('lc', [A1, A2], [], 'method'), ('rc', [A2, A1], [], 'method')], [], 'infix'),
              ('rp', [A1, A2], [], 'infix'), ('proj', [A2, A1], [], 'infix'), ('grade', [('gp', [A1, A2], [], 'infix')], [1], 'method'),
              ('hodge', [('gp', [A2, A1], [], 'infix')], [], 'method'), ('neg', [('sw', [A1, A2], [], 'infix')], [], 'infix')]
    for ci in range(n):
        eid = f'{prefix}:{ci}'
        tree = rng.choice(linear)
        if 'cp' in P.ops_in(tree):
            continue        # cp carries the factor 1/2 (ResultScale 2): outside EvalTree
        kR = tuple(rng.sample(range(nb), rng.randint(1, min(nb, 3))))
        kx = tuple(rng.sample(range(nb), rng.randint(1, min(nb, 4))))
        mode = rng.choice(['symbolic', 'symbolic', 'numeric', 'array'])
        sym2id = {}
        xs = []
        for k in kx:
            nm = f'x{int(k)}'
            sym2id[nm] = 2000 + int(k) + 1
            xs.append(sympy.Symbol(nm))
        x = MultiVector.fromkeysvalues(alg, kx, xs)
        lanes = 1
        if mode == 'symbolic':
            Rs = []
            for k in kR:
                nm = f'R{int(k)}'
                sym2id[nm] = 1000 + int(k) + 1
                Rs.append(sympy.Symbol(nm))
            R = MultiVector.fromkeysvalues(alg, kR, Rs)
        elif mode == 'numeric':
            R = MultiVector.fromkeysvalues(alg, kR, [rng.choice([-2, -1, 1, 2, 3]) for _ in kR])
        else:
            lanes = 3
            R = MultiVector.fromkeysvalues(alg, kR, [np.array([rng.choice([-2, -1, 1, 2, 3]) for _ in range(lanes)]) for _ in kR])
        fn, code = P.make_function('f', tree, 2)
        like = None
        if rng.random() < 0.3:
            lk = tuple(rng.sample(range(nb), rng.randint(1, min(nb, 3))))
            like = MultiVector.fromkeysvalues(alg, lk, [1] * len(lk))
        raised = ''
        try:
            # the expression as a plain function, or compiled by alg.register (its result then bypasses the algebra's simp_func)
            registered = zlib.crc32(eid.encode()) % 3 == 0
            if registered:
                fn = alg.register(fn)
            A, y = expr_as_matrix(fn, R, x, res_like=like) if like is not None else expr_as_matrix(fn, R, x)
        except Exception as e:   # noqa: BLE001
            raised = type(e).__name__
        for lane in range(lanes):
            try:
                def G_of(v):
                    if isinstance(v, np.ndarray):
                        v = v[lane] if v.shape else v[()]
                    if isinstance(v, sympy.Basic):
                        return sympy_to_G(v, sym2id)
                    return K.coef_to_G(v)

                def enc(g):
                    if not g.is_poly():
                        raise K.EncodeError('non-polynomial entry')
                    return g.to_json('poly')
                Rl = [G_of(v) for v in R.values()]
                ev = {'id': f'{eid}.{lane}', 'kind': 'exprmat', 'u': u, 'mode': mode, 'source': P.src(tree), 'raised': raised,
                      'tree': P.to_json(tree, lambda v: K.G.const(v).to_json('poly')),
                      'args': [{'keys': [int(k) for k in kR], 'coefs': [enc(g) for g in Rl]},
                               {'keys': [int(k) for k in kx], 'coefs': [enc(G_of(v)) for v in xs]}],
                      'x': {'keys': [int(k) for k in kx], 'coefs': [enc(G_of(v)) for v in xs]},
                      'reslike': like is not None, 'likekeys': [int(k) for k in like.keys()] if like is not None else [],
                      'A': [], 'y': {'keys': [], 'coefs': []}}
                if not raised:
                    Al = A
                    rows = []
                    nrows = len(y)
                    for i in range(nrows):
                        row = []
                        for j in range(len(kx)):
                            v = Al[i][j] if isinstance(Al, list) else Al[i, j]
                            row.append(enc(G_of(v)))
                        rows.append(row)
                    ev['A'] = rows
                    ev['y'] = {'keys': [int(k) for k in y.keys()], 'coefs': [enc(G_of(v)) for v in y.values()]}
                events.append(ev)
            except (K.EncodeError, ValueError, TypeError, IndexError) as e:
                skipped.append([f'{eid}.{lane}', P.src(tree), mode, str(e)[:80]])
    return events, skipped


def run_job(job):
    evs, skipped = [], []
    for eid, u, seed in job.get('reps', []):
        evs.append(matrixrep_event(eid, u, seed))
    for prefix, u, seed, n in job.get('exprs', []):
        e, s = exprmat_events(prefix, u, seed, n)
        evs += e
        skipped += s
    with open(job['out'], 'w') as f:
        for ev in evs:
            f.write(json.dumps(ev) + '\n')
    return {'out': job['out'], 'events': len(evs), 'skipped': skipped}


def run_jobs(jobs, procs=16):
    import multiprocessing as mp
    import kdriver as _K
    jobs = _K.filter_buildable(jobs)
    if not jobs:
        return []
    with mp.get_context('fork').Pool(min(procs, len(jobs))) as pool:
        return pool.map(run_job, jobs, chunksize=1)
