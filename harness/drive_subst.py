"""C12 events: symbolic operands (any mix of symbols and numbers) -> symbolic result -> numbers
substituted by call (positional / keyword), by sympy subs, and the operator on numeric operands."""
import os
import sys
import json
import signal
from fractions import Fraction

sys.path.insert(0, os.path.dirname(os.path.abspath(__file__)))

NAMES = ['a', 'B', 'a10', 'a2', 'b', 'x_1', 'Z', 'c', 'aa', 'A1', 'y', 'k9', 'm', 'Q', 'u3', 'w']


class _Timeout(Exception):
    pass


def _alarm(s, f):
    raise _Timeout()


def run_job(job):
    import random
    import sympy
    import kdriver as K
    from drive_session import sympy_to_G
    from drive_ops import algebra_options
    from kingdon import MultiVector
    rng = random.Random(job['seed'])
    u, opts = job['u'], job.get('opts', {})
    alg = K.make_algebra(u, **algebra_options(opts))
    events, skipped, again = [], [], []
    signal.signal(signal.SIGALRM, _alarm)
    for ci, (op, keylists, params) in enumerate(job['cases']):
        eid = f"{job['prefix']}:{ci}"
        try:
            signal.alarm(job.get('budget', 60))
            names = rng.sample(NAMES, len(NAMES))
            sym2id, sigma, ops_sym, ops_num = {}, {}, [], []
            ni = 0
            same = op.endswith('_same')         # u op u: both operands are ONE symbolic multivector
            if same:
                op = op[:-5]
                keylists = keylists[:1]
            for oi, keys in enumerate(keylists):
                vs, vn = [], []
                for k in keys:
                    r = rng.random()
                    if r < 0.25:                         # a numeric coefficient among the symbols
                        val = rng.choice([2, -1, 3, Fraction(1, 2), 0, 0])      # incl. an explicitly stored zero
                        vs.append(sympy.Rational(val.numerator, val.denominator) if isinstance(val, Fraction) else val)
                        vn.append(val)
                    else:
                        nm = names[ni % len(names)] + (str(ni // len(names)) if ni >= len(names) else '')
                        ni += 1
                        vid = (oi + 1) * 1000 + int(k) + 1
                        sym2id[nm] = vid
                        val = rng.choice([1, 2, -2, 3, -3, Fraction(1, 2), Fraction(-2, 3), -1])
                        sigma[nm] = val
                        vs.append(sympy.Symbol(nm))
                        vn.append(val)
                if rng.random() < 0.25 and keys:
                    # string coefficients are sympified at construction (public constructor)
                    ops_sym.append(alg.multivector(keys=tuple(keys), values=[str(v) if isinstance(v, sympy.Basic) else v for v in vs]))
                else:
                    ops_sym.append(MultiVector.fromkeysvalues(alg, tuple(keys), vs))
                ops_num.append(MultiVector.fromkeysvalues(alg, tuple(keys), vn))
            if same:
                ops_sym.append(ops_sym[0])
                ops_num.append(ops_num[0])
            raised, rs = '', None
            try:
                rs = K.apply_op(op, ops_sym, params)
            except _Timeout:
                raise
            except Exception as e:   # noqa: BLE001
                raised = type(e).__name__
            witness = None
            if raised == 'ZeroDivisionError' and op in ('inv', 'div'):
                # the error is right only if the operand has no inverse: a zero-divisor witness (verified by TLC) is
                # searched when the operand is purely numeric; for a partly symbolic one no witness can be proposed
                # here and the case is skipped (wrongly raised ZeroDivisionError is C07's business)
                div_sym = ops_sym[-1]
                if any(isinstance(v, sympy.Basic) and v.free_symbols for v in div_sym.values()):
                    raise K.EncodeError('ZeroDivisionError on a partly symbolic operand: no witness proposed')
                import pyref
                xd = {int(k): Fraction(v) for k, v in zip(ops_num[-1].keys(), ops_num[-1].values()) if Fraction(v) != 0}
                w = pyref.zero_divisor_witness(u, xd) if xd else {0: 1}
                if w is None:
                    witness = None
                else:
                    witness = MultiVector.fromkeysvalues(alg, tuple(w.keys()), list(w.values()))

            def toG(v):
                if isinstance(v, sympy.Basic):
                    return sympy_to_G(v, sym2id)
                return K.coef_to_G(v)

            def encmv(mv, ring):
                cs = [toG(v) for v in mv.values()]
                if ring == 'rat' and cs and all(set(c.d) == {()} for c in cs):
                    # numeric denominators: one common denominator per multivector, so that TLC adds numerators
                    # instead of multiplying denominators up (32-bit integers)
                    from math import lcm
                    D = lcm(*[c.d[()] for c in cs])
                    return {'keys': [int(k) for k in mv.keys()],
                            'coefs': [{'n': K.G._pjson({m: v * (D // c.d[()]) for m, v in c.n.items()}), 'd': [[D, []]]} for c in cs]}
                return {'keys': [int(k) for k in mv.keys()], 'coefs': [c.to_json(ring) for c in cs]}
            allG = [toG(v) for mv in ops_sym + ([rs] if rs is not None else []) for v in mv.values()]
            if any(g.max_abs() >= K.INT_LIMIT for g in allG):
                raise K.EncodeError('integer too large')
            # TLC integers are 32-bit: bound the intermediates of the symbolic verdict and of the evaluation at sigma
            K._magnitude_guard_G(op, params, [[toG(v) for v in mv.values()] for mv in ops_sym + ([rs] if rs is not None else [])], len(ops_sym))
            if rs is not None:
                smax = max([max(abs(Fraction(v).numerator), Fraction(v).denominator) for v in sigma.values()] or [1])
                for v in rs.values():
                    g = toG(v)
                    bn = sum(abs(c) * smax ** (2 * len(m)) for m, c in g.n.items())
                    bd = sum(abs(c) * smax ** (2 * len(m)) for m, c in g.d.items())
                    if bn * bd >= 2 ** 30 or (bn * bd) * 10 ** 4 >= 2 ** 31 and max(bn, bd) > 2 ** 12:
                        raise K.EncodeError('evaluation at sigma may exceed 32 bits in TLC')
            ring = 'poly' if all(g.is_poly() for g in allG) else 'rat'
            evals = []
            if rs is not None:
                free = sorted(rs.free_symbols, key=lambda s: s.name)

                def num(v):
                    # exact rationals stay exact; floats (python evaluates 1/2 as 0.5 inside the
                    # lambdified function) are logged as the nearest small-denominator fraction
                    if isinstance(v, sympy.Basic):
                        if v.is_Rational:
                            return K.G.const(Fraction(int(v.p), int(v.q)))
                        if v.is_Float or v.is_number:
                            return K.coef_to_G(float(v))
                        raise K.EncodeError(f'non-numeric value {v}')
                    return K.coef_to_G(v)

                def rec(how, fn):
                    try:
                        r = fn()
                        evals.append({'how': how, 'raised': '',
                                      'res': {'keys': [int(k) for k in r.keys()], 'coefs': [num(v).to_json('rat') for v in r.values()]}})
                    except (_Timeout, K.EncodeError):
                        raise
                    except ZeroDivisionError:
                        pass            # a pole of the symbolic result: outside the property's domain
                    except Exception as e:   # noqa: BLE001
                        evals.append({'how': how, 'raised': type(e).__name__, 'res': {'keys': [], 'coefs': []}})
                sv = {s: (sympy.Rational(sigma[s.name].numerator, sigma[s.name].denominator) if isinstance(sigma[s.name], Fraction) else sigma[s.name]) for s in free}
                if free:
                    # positional arguments bind to the free symbols in NAME order; keywords by name
                    rec('call_positional', lambda: rs(*[sv[s] for s in free]))
                    rec('call_keyword', lambda: rs(**{s.name: sv[s] for s in rng.sample(free, len(free))}))
                rec('subs', lambda: rs.map(lambda v: v.subs(sv) if isinstance(v, sympy.Basic) else v))
                rec('numeric_operator', lambda: K.apply_op(op, ops_num, params))
            ev = {'id': eid, 'kind': 'subst', 'op': op, 'ring': ring, 'args': [encmv(m, ring) for m in ops_sym],
                  'params': [int(p) for p in params], 'raised': raised,
                  'res': encmv(rs, ring) if rs is not None else {'keys': [], 'coefs': []},
                  'witness': encmv(witness, ring) if witness is not None else {'keys': [], 'coefs': []},
                  'sigma': [[sym2id[n], [Fraction(v).numerator, Fraction(v).denominator]] for n, v in sorted(sigma.items())],
                  'names': {n: sym2id[n] for n in sigma}, 'evals': evals}
            signal.alarm(0)
            events.append(ev)
            if rs is not None and free:
                again.append((ev, rs, free, sv, num))
        except _Timeout:
            skipped.append([eid, op, 'time budget'])
        except (K.EncodeError, ValueError) as e:
            signal.alarm(0)
            skipped.append([eid, op, f'encode: {e}'])
        finally:
            signal.alarm(0)
    # history: every symbolic result is called AGAIN after all the others have been called
    # (calling a multivector must not depend on which other multivectors were called before)
    rng.shuffle(again)
    for ev, rs, free, sv, num in again:
        try:
            signal.alarm(20)
            r = rs(*[sv[s] for s in free])
            ev['evals'].append({'how': 'call_positional', 'raised': '', 'again': True,
                                'res': {'keys': [int(k) for k in r.keys()], 'coefs': [num(v).to_json('rat') for v in r.values()]}})
        except ZeroDivisionError:
            pass
        except (_Timeout, K.EncodeError):
            pass
        except Exception as e:   # noqa: BLE001
            ev['evals'].append({'how': 'call_positional', 'raised': type(e).__name__, 'again': True, 'res': {'keys': [], 'coefs': []}})
        finally:
            signal.alarm(0)
    # ---- near-equal siblings: the same symbols and blades, one float coefficient differing in the 4th significant digit;
    #      A, B and A again are called (a multivector's call must not be served by what was compiled for another one)
    for ci in range(job.get('n_sib', 0)):
        try:
            signal.alarm(job.get('budget', 60))
            nb_ = 2 ** alg.d
            if nb_ < 2:
                break
            keys = tuple(rng.sample(range(nb_), min(nb_, rng.randint(2, 3))))
            sname = rng.choice(['s', 'q7', 'zz'])
            S = sympy.Symbol(sname)
            sval = rng.choice([2, -3, Fraction(1, 2)])
            sid = {sname: 1000 + int(keys[0]) + 1}
            seq = [Fraction(12341, 10000), Fraction(12349, 10000), Fraction(12341, 10000)]
            for j, fl in enumerate(seq):
                vals = [S] + [float(fl)] + [3] * (len(keys) - 2)
                mv = MultiVector.fromkeysvalues(alg, keys, vals)
                want = [K.G({(sid[sname],): 1}, {(): 1})] + [K.G.const(fl)] + [K.G.const(3)] * (len(keys) - 2)
                enc = {'keys': [int(k) for k in keys], 'coefs': [g.to_json('rat') for g in want]}
                evals = []
                for how, f in (('call_positional', lambda: mv(float(sval) if isinstance(sval, Fraction) else sval)),
                               ('call_keyword', lambda: mv(**{sname: float(sval) if isinstance(sval, Fraction) else sval}))):
                    try:
                        r = f()
                        evals.append({'how': how, 'raised': '', 'res': {'keys': [int(k) for k in r.keys()], 'coefs': [K.coef_to_G(v).to_json('rat') for v in r.values()]}})
                    except K.EncodeError:
                        raise
                    except Exception as e:   # noqa: BLE001
                        evals.append({'how': how, 'raised': type(e).__name__, 'res': {'keys': [], 'coefs': []}})
                events.append({'id': f"{job['prefix']}:s{ci}.{j}", 'kind': 'subst', 'op': 'id', 'ring': 'rat', 'args': [enc], 'params': [], 'raised': '',
                               'res': enc, 'witness': {'keys': [], 'coefs': []},
                               'sigma': [[sid[sname], [Fraction(sval).numerator, Fraction(sval).denominator]]], 'names': dict(sid), 'evals': evals})
        except _Timeout:
            skipped.append([f"{job['prefix']}:s{ci}", 'id', 'time budget'])
        except (K.EncodeError, ValueError) as e:
            skipped.append([f"{job['prefix']}:s{ci}", 'id', f'encode: {e}'])
        finally:
            signal.alarm(0)
    # ---- chains: multivectors built by name (symbols x0, x1, ... / x1, x2, ...: the names sympy's cse would use for its own
    #      temporaries), then q = p + p*p + (p*p)*B: bare symbols beside compound coefficients with shared subexpressions
    for ci in range(job.get('n_chain', 0)):
        eid = f"{job['prefix']}:c{ci}"
        try:
            signal.alarm(job.get('budget', 60))
            if alg.d < 2:
                break
            p_ = alg.vector(name='x')
            B_ = alg.blades[[n_ for n_ in alg.canon2bin if len(n_) == 3][ci % max(1, alg.d - 1)]]
            s_ = p_ * p_
            q_ = p_ + s_ + s_ * B_ if ci % 2 == 0 else p_ + (s_ * B_) * p_ + s_
            sid = {v.name: 1000 + int(k) + 1 for k, v in zip(p_.keys(), p_.values())}
            sig = {nm: rng.choice([2, -1, 3, 5, -2, 7]) for nm in sid}
            enc = {'keys': [int(k) for k in q_.keys()], 'coefs': [sympy_to_G(v, sid).to_json('rat') for v in q_.values()]}
            free = sorted(q_.free_symbols, key=lambda z_: z_.name)
            evals = []
            for how, f in (('call_positional', lambda: q_(*[sig[z_.name] for z_ in free])),
                           ('call_keyword', lambda: q_(**{z_.name: sig[z_.name] for z_ in free})),
                           ('subs', lambda: q_.map(lambda v: v.subs({z_: sig[z_.name] for z_ in free}) if isinstance(v, sympy.Basic) else v))):
                try:
                    r = f()
                    evals.append({'how': how, 'raised': '', 'res': {'keys': [int(k) for k in r.keys()],
                                                                      'coefs': [K.coef_to_G(int(v) if isinstance(v, sympy.Basic) else v).to_json('rat') for v in r.values()]}})
                except (K.EncodeError, TypeError):
                    raise K.EncodeError('not a number')
                except Exception as e:   # noqa: BLE001
                    evals.append({'how': how, 'raised': type(e).__name__, 'res': {'keys': [], 'coefs': []}})
            events.append({'id': eid, 'kind': 'subst', 'op': 'id', 'ring': 'rat', 'args': [enc], 'params': [], 'raised': '', 'res': enc,
                           'witness': {'keys': [], 'coefs': []}, 'sigma': [[sid[n_], [int(v_), 1]] for n_, v_ in sorted(sig.items())], 'names': dict(sid), 'evals': evals})
        except _Timeout:
            skipped.append([eid, 'id', 'time budget'])
        except (K.EncodeError, ValueError) as e:
            skipped.append([eid, 'id', f'encode: {e}'])
        finally:
            signal.alarm(0)
    # ---- operators with irrational symbolic results: every evaluation route against the numeric operator ----------
    import pyref
    d_, sgn = pyref.sign_table(u)
    pos = [B for B in range(1, 2 ** d_) if sgn(B, B) * (1 if bin(B).count('1') % 4 in (0, 1) else -1) > 0]      # blades with positive squared norm
    nul = [B for B in range(1, 2 ** d_) if sgn(B, B) == 0]
    for ci in range(job.get('n_irr', 0)):
        eid = f"{job['prefix']}:n{ci}"
        op = rng.choice(['norm', 'norm', 'normalized', 'sqrtnormsq'])
        try:
            signal.alarm(job.get('budget', 60))
            if not pos:
                break
            s_, t_ = sympy.Symbol('s'), sympy.Symbol('t')
            E = rng.choice(pos)
            shape = rng.choice(['mono', 'mono_null', 'two'])
            if shape == 'mono_null' and nul:
                keys, vs, sig = (E, rng.choice([n for n in nul if n != E] or nul)), [s_, t_], {'s': rng.choice([-3, -2, 2, 5]), 't': rng.choice([-1, 2, 3])}
            elif shape == 'two' and len(pos) > 1:
                E2 = rng.choice([p_ for p_ in pos if p_ != E])
                keys, vs, sig = (E, E2), [s_, t_], rng.choice([{'s': 3, 't': 4}, {'s': -3, 't': 4}, {'s': -5, 't': -12}, {'s': 8, 't': -6}])
            else:
                keys, vs, sig = (E,), [s_], {'s': rng.choice([-3, -2, 2, 5, -7])}
            if len(set(keys)) != len(keys):
                continue
            xs = MultiVector.fromkeysvalues(alg, keys, vs)
            xn = MultiVector.fromkeysvalues(alg, keys, [float(sig[v.name]) for v in vs])
            fn = {'norm': lambda m: m.norm(), 'normalized': lambda m: m.normalized(), 'sqrtnormsq': lambda m: m.normsq().sqrt()}[op]

            def num2(v):
                if isinstance(v, sympy.Basic):
                    if not v.is_number:
                        raise K.EncodeError('free symbol left')
                    v = complex(v)
                    if abs(v.imag) > 1e-12:
                        raise K.EncodeError('complex value')
                    v = v.real
                return K.coef_to_G(float(v))
            evals = []

            def rec2(how, f):
                try:
                    r = f()
                    evals.append({'how': how, 'raised': '', 'res': {'keys': [int(k) for k in r.keys()], 'coefs': [num2(v).to_json('rat') for v in r.values()]}})
                except (_Timeout, K.EncodeError):
                    raise
                except Exception as e:   # noqa: BLE001
                    evals.append({'how': how, 'raised': type(e).__name__, 'res': {'keys': [], 'coefs': []}})
            rs = fn(xs)
            free = sorted(rs.free_symbols, key=lambda q_: q_.name)
            svals = {q_: sympy.Integer(sig[q_.name]) for q_ in free}
            rec2('numeric_operator', lambda: fn(xn))
            if free:
                rec2('call_positional', lambda: rs(*[float(sig[q_.name]) for q_ in free]))
                rec2('call_keyword', lambda: rs(**{q_.name: float(sig[q_.name]) for q_ in free}))
            rec2('subs', lambda: rs.map(lambda v: v.subs(svals) if isinstance(v, sympy.Basic) else v))
            events.append({'id': eid, 'kind': 'substnum', 'op': op, 'ring': 'rat', 'params': [], 'raised': '',
                           'args': [{'keys': [int(k) for k in keys], 'coefs': [K.G.const(sig[v.name]).to_json('rat') for v in vs]}],
                           'res': {'keys': [], 'coefs': []}, 'sigma': [[n_, v_] for n_, v_ in sorted(sig.items())], 'names': {}, 'witness': {'keys': [], 'coefs': []}, 'evals': evals})
        except _Timeout:
            skipped.append([eid, op, 'time budget'])
        except (K.EncodeError, ValueError) as e:
            skipped.append([eid, op, f'encode: {e}'])
        finally:
            signal.alarm(0)
    K.write_trace(job['out'], {'kind': 'cfg', 'u': u, 'opts': __import__('drive_ops').full_opts(opts)}, events)
    return {'out': job['out'], 'events': len(events), 'skipped': skipped}


def run_jobs(jobs, procs=16):
    import multiprocessing as mp
    import kdriver as _K
    jobs = _K.filter_buildable(jobs)
    if not jobs:
        return []
    with mp.get_context('fork').Pool(min(procs, len(jobs))) as pool:
        return pool.map(run_job, jobs, chunksize=1)
