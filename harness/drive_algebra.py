"""Build algebras from user-level configurations and record what they report (`table` events)."""
import os
import sys
import json
import random
import itertools
import multiprocessing as mp

sys.path.insert(0, os.path.dirname(os.path.abspath(__file__)))


def _digits(name):
    return [int(ch, 16) for ch in name[1:]]


def _mvrec(mv):
    return [int(k) for k in mv.keys()], [int(v) for v in mv.values()]


def table_event(eid, u, seed=0, opts=None, full_pairs_upto=6, n_pairs=400, n_spell=60, n_prod=200):
    import kdriver as K
    from drive_ops import algebra_options
    rng = random.Random(seed)
    ev = {'id': eid, 'kind': 'table', 'u': u, 'raised': '', 'd': 0, 'sigrep': [], 'start': 0, 'pqr': [0, 0, 0],
          'names': [], 'bins': [], 'b2c': [], 'signs': [], 'cayley': [], 'prods': [], 'spelled': [],
          'ifg': [], 'typenums': [], 'opts': opts or {}, 'alen': 0, 'frame': [], 'rframe_raised': '', 'rframe': [], 'bgrade': []}
    try:
        alg = K.make_algebra(u, **algebra_options(opts or {}))
    except Exception as e:   # noqa: BLE001
        ev['raised'] = type(e).__name__
        return ev
    d = alg.d
    n = 2 ** d
    ev['d'] = d
    ev['sigrep'] = [int(s) for s in alg.signature]
    ev['start'] = int(alg.start_index)
    ev['pqr'] = [int(alg.p), int(alg.q), int(alg.r)]
    ev['names'] = [_digits(nm) for nm in alg.canon2bin.keys()]
    ev['bins'] = [int(b) for b in alg.canon2bin.values()]
    ev['b2c'] = [_digits(alg.bin2canon[b]) for b in range(n)]
    # indices_for_grade(s) and type_number (pure functions of the configuration / the key set)
    if d <= 6:
        import itertools as _it
        gsets = [tuple(g) for k in range(0, d + 2) for g in _it.combinations(range(d + 1), k)]
        if len(gsets) > 24:
            gsets = rng.sample(gsets, 24)
        for gs in gsets:
            ev['ifg'].append([list(gs), [int(b) for b in alg.indices_for_grades[gs]]])
        from kingdon import MultiVector
        for _ in range(8 if d <= 4 else 0):      # type numbers have 2^d bits: TLC integers are 32-bit
            keys = rng.sample(range(n), rng.randint(0, min(n, 5)))
            mv = MultiVector.fromkeysvalues(alg, tuple(keys), [1] * len(keys))
            ev['typenums'].append([[int(k) for k in keys], int(mv.type_number)])
    ev['alen'] = len(alg)
    ev['frame'] = [list(_mvrec(v)) for v in alg.frame]
    try:
        rf = alg.reciprocal_frame
        recs = []
        for v in rf:
            if any(x != int(x) for x in v.values()):
                raise ValueError('reciprocal frame with non-integer coefficients')
            recs.append(list(_mvrec(v)))
        ev['rframe'] = recs
    except ValueError:
        raise
    except Exception as e:   # noqa: BLE001
        ev['rframe_raised'] = type(e).__name__
    if d <= 6:
        for _ in range(4):
            gs = tuple(sorted(rng.sample(range(d + 1), rng.randint(1, min(d + 1, 3)))))
            bd = alg.blades.grade(*gs) if rng.random() < 0.5 else alg.blades.grade(gs)
            ev['bgrade'].append([list(gs), [_digits(nm) for nm in bd.keys()], [list(_mvrec(v)) for v in bd.values()]])
    # sign table: complete up to d = full_pairs_upto; above that (lazy tables for d > 6) a random
    # sequence of look-ups that contains both orders of every sampled pair
    if d <= full_pairs_upto:
        pairs = [(i, j) for i in range(n) for j in range(n)]
        rng.shuffle(pairs)
    else:
        base = [(rng.randrange(n), rng.randrange(n)) for _ in range(n_pairs)]
        # pairs sharing generators exercise the metric factor
        base += [(a, a ^ (1 << rng.randrange(d)) | (1 << rng.randrange(d))) for a, _ in base[:n_pairs // 2]]
        pairs = base + [(j, i) for i, j in base]
        rng.shuffle(pairs)
    ev['signs'] = [[i, j, int(alg.signs[i, j])] for i, j in pairs]
    # Cayley table
    if d <= 6:
        cay = alg.cayley
        c2b = alg.canon2bin
        items = list(cay.items())
        if d == 6:
            items = rng.sample(items, 1500)
        for (eI, eJ), val in items:
            if val == '0':
                s, nm = 0, []
            elif val.startswith('-'):
                s, nm = -1, _digits(val[1:])
            else:
                s, nm = 1, _digits(val)
            ev['cayley'].append([int(c2b[eI]), int(c2b[eJ]), s, nm])
    # products of basis blades through the public API
    names = list(alg.canon2bin.keys())
    if d <= 3:
        ppairs = [(a, b) for a in names for b in names]
    else:
        ppairs = [(rng.choice(names), rng.choice(names)) for _ in range(n_prod)] if d <= 6 else \
            [(alg.bin2canon[i], alg.bin2canon[j]) for i, j in pairs[:n_prod]]
    for a, b in ppairs:
        r = alg.blades[a] * alg.blades[b]
        k, v = _mvrec(r)
        ev['prods'].append([int(alg.canon2bin[a]), int(alg.canon2bin[b]), k, v])
    # permuted spellings of blades
    spellings = []
    if d <= 3:
        for nm in names:
            for perm in itertools.permutations(nm[1:]):
                spellings.append('e' + ''.join(perm))
    else:
        for _ in range(n_spell):
            nm = rng.choice(names)
            chars = list(nm[1:])
            rng.shuffle(chars)
            spellings.append('e' + ''.join(chars))
    for sp in spellings:
        r = alg.blades[sp]
        k, v = _mvrec(r)
        ev['spelled'].append([_digits(sp), k, v])
    return ev


def reject_event(eid, u):
    """An inadmissible configuration: construction must raise."""
    import kdriver as K
    ev = {'id': eid, 'kind': 'reject', 'u': u, 'raised': ''}
    try:
        K.make_algebra(u)
    except Exception as e:   # noqa: BLE001
        ev['raised'] = type(e).__name__
    return ev


def _job(job):
    evs = [table_event(eid, u, seed, opts) for eid, u, seed, opts in job['cases']]
    with open(job['out'], 'w') as f:
        for ev in evs:
            f.write(json.dumps(ev) + '\n')
    return job['out']


def run_table_jobs(cases, outdir, procs=16, per_file=None):
    """cases: list of (eid, u, seed, opts).  Writes trace files, returns their paths."""
    os.makedirs(outdir, exist_ok=True)
    per_file = per_file or max(1, len(cases) // (procs * 3) + 1)
    jobs = [{'cases': cases[i:i + per_file], 'out': os.path.join(outdir, f'tab{i // per_file}.ndjson')}
            for i in range(0, len(cases), per_file)]
    ctx = mp.get_context('fork')
    with ctx.Pool(min(procs, max(1, len(jobs)))) as pool:
        return pool.map(_job, jobs, chunksize=1)
