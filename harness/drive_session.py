"""Histories of calls on ONE long-lived, externally instrumented Algebra (C09, C10, C11, C13).

A session job:
  {'u': cfg, 'opts': {...}, 'programs': {name: {'tree':…, 'nargs':n, 'symbolic':bool, 'pyname':str}},
   'history': [call...], 'out': path prefix, 'sid': id}
  call = {'t': thread name, 'kind': 'op'|'prog', 'op': name, 'args': [operand specs], 'params': [...],
          'mode': 'num'|'sym'}
Outputs two traces:
  <out>.values.ndjson   one `call` event per call: operands, result, result on a FRESH algebra,
                        direct evaluation / program tree for registered functions, snapshots of all
                        operands and earlier results before/after  -> spec/TraceOps.tla
  <out>.proto.ndjson    the generate/cache/dispatch events of the whole session
                        -> spec/TraceKingdon.tla
"""
import os
import sys
import json
import signal
import threading

sys.path.insert(0, os.path.dirname(os.path.abspath(__file__)))


class _Timeout(Exception):
    pass


def _alarm(signum, frame):
    raise _Timeout()


def sympy_to_G(expr, sym2id):
    import sympy
    from fractions import Fraction
    from math import lcm
    from generic import G
    expr = sympy.sympify(expr)
    n, d = sympy.fraction(sympy.together(expr))
    syms = sorted(expr.free_symbols, key=lambda s: s.name)
    for s in syms:
        if s.name not in sym2id:
            raise ValueError(f'unknown symbol {s}')

    def poly(e):
        if not syms:
            e = sympy.nsimplify(e)
            if not e.is_Rational:
                raise ValueError('not rational')
            return {(): Fraction(int(e.p), int(e.q))} if e != 0 else {}
        p = sympy.Poly(sympy.expand(e), *syms)
        out = {}
        for powers, c in p.terms():
            c = sympy.nsimplify(c)
            if not c.is_Rational:
                raise ValueError('non rational coefficient')
            mono = []
            for s, k in zip(syms, powers):
                mono += [sym2id[s.name]] * int(k)
            if c != 0:
                out[tuple(sorted(mono))] = Fraction(int(c.p), int(c.q))
        return out
    pn, pd = poly(n), poly(d)
    L = lcm(*[c.denominator for c in list(pn.values()) + list(pd.values())] or [1])
    return G({m: int(c * L) for m, c in pn.items()}, {m: int(c * L) for m, c in pd.items()})


def symbolic_mv(alg, keys, operand_index, sym2id):
    import sympy
    from kingdon import MultiVector
    vals = []
    for k in keys:
        nm = f'x{operand_index}_{int(k)}'
        sym2id[nm] = operand_index * 1000 + int(k) + 1
        vals.append(sympy.Symbol(nm))
    return MultiVector.fromkeysvalues(alg, tuple(keys), vals)


def typed_mv(alg, keys, operand_index, ctype):
    """Same key pattern, other coefficient types (C10: the cache must not depend on them)."""
    from fractions import Fraction
    from kingdon import MultiVector
    base = [((operand_index * 7 + int(k) * 3) % 5) + 1 for k in keys]
    if ctype == 'int':
        vals = base
    elif ctype == 'float':
        vals = [b + 0.5 for b in base]
    elif ctype == 'frac':
        vals = [Fraction(b, 3) for b in base]
    else:
        import numpy as np
        vals = [np.array([b, b + 1.0, -b]) for b in base]
    return MultiVector.fromkeysvalues(alg, tuple(keys), vals)


def run_session(job):
    import kdriver as K
    import instrument as I
    import programs as P
    from drive_ops import algebra_options, mark_wrapper
    u, opts = job['u'], job.get('opts', {})
    budget = job.get('budget', 60)
    rec = I.Recorder()
    alg = K.make_algebra(u, **algebra_options(opts))
    I.instrument(alg, rec)
    sym2id = {}

    def register_all(a, instrumented):
        regs = {}
        for name, pd in job.get('programs', {}).items():
            fn, code = P.make_function(pd['pyname'], pd['tree'], pd['nargs'], extra_globals=regs)
            r = a.register(fn, symbolic=pd.get('symbolic', False))
            if instrumented:
                I.instrument_registry_entry(r, rec, name)
            regs[pd['pyname']] = r
            regs['__' + name] = r
            regs['__plain_' + name] = fn
        return regs

    rec.enabled = False
    regs = register_all(alg, True)
    rec.enabled = True
    values, skipped = [], []
    kept = []          # earlier results (bounded) whose coefficients must never change
    signal.signal(signal.SIGALRM, _alarm)

    def build_args(a, call, s2i):
        out = []
        for n, spec in enumerate(call['args']):
            if call.get('mode') == 'sym' and not isinstance(spec, dict):
                out.append(symbolic_mv(a, spec, n + 1, s2i))
            elif call.get('ctype') in ('int', 'float', 'frac', 'numpy') and not isinstance(spec, dict):
                out.append(typed_mv(a, spec, n + 1, call['ctype']))
            else:
                out.append(K.operand(a, spec, n + 1))
        return out

    def perform(a, rg, call, args):
        if call['kind'] == 'prog':
            return rg['__' + call['op']](*args)
        return K.apply_op(call['op'], args, call.get('params', ()))

    def toG(v):
        if hasattr(v, 'free_symbols') and getattr(v, 'free_symbols', None):
            return sympy_to_G(v, sym2id)
        return K.coef_to_G(v)

    def snap(mv):
        return [int(k) for k in mv.keys()], [toG(v) for v in mv.values()]

    for ci, call in enumerate(job['history']):
        eid = f"{job['sid']}:{ci}"
        try:
            signal.alarm(budget)
            args = build_args(alg, call, sym2id)
            watched = ([a for a in args if isinstance(a, K.MultiVector)] + kept[-4:]) if call.get('ctype') not in ('float', 'numpy') else []
            before = [snap(m) for m in watched]
            rec.log('Begin', op=call['op'], pat=[[int(k) for k in a.keys()] for a in args if isinstance(a, K.MultiVector)],
                    kind='registered' if call['kind'] == 'prog' and not job['programs'][call['op']].get('symbolic') else 'operator',
                    mode=call.get('mode', 'num'))
            raised, res = '', None
            try:
                res = perform(alg, regs, call, args)
                rec.log('Return', cfg=I.config_changed(alg))
            except _Timeout:
                raise
            except Exception as e:   # noqa: BLE001
                raised = type(e).__name__
                rec.log('Raise', exc=raised, cfg=I.config_changed(alg))
                for st in rec.gen_stack.values():
                    st.clear()
            after = [snap(m) for m in watched]
            # oracle of C09: the same call on a freshly created algebra
            rec.enabled = False
            fresh_alg = K.make_algebra(u, **algebra_options(opts))
            fregs = register_all(fresh_alg, False) if call['kind'] == 'prog' or job.get('programs') else {}
            s2 = {}
            fargs = build_args(fresh_alg, call, s2)
            fraised, fres = '', None
            try:
                fres = perform(fresh_alg, fregs, call, fargs)
            except _Timeout:
                raise
            except Exception as e:   # noqa: BLE001
                fraised = type(e).__name__
            # registered functions: the plain python function on the same operands
            direct, draised = None, ''
            if call['kind'] == 'prog':
                try:
                    direct = fregs['__plain_' + call['op']](*fargs)
                except _Timeout:
                    raise
                except Exception as e:   # noqa: BLE001
                    draised = type(e).__name__
            rec.enabled = True
            signal.alarm(0)
            if call.get('ctype') in ('float', 'numpy'):
                continue
            mvs = {'args': [snap(a) for a in args if isinstance(a, K.MultiVector)]}
            for nm, m in (('res', res), ('fresh', fres), ('direct', direct)):
                if m is not None and not isinstance(m, K.MultiVector):
                    if isinstance(m, (int, float, K.G)) or hasattr(m, 'is_Rational') or type(m).__name__ == 'Fraction':
                        m = K.mv_from(alg, (0,), [m])      # a plain number is the scalar multivector
                    else:
                        raise K.EncodeError(f'{nm} is not a multivector: {type(m).__name__}')
                mvs[nm] = snap(m) if m is not None else ([], [])
            allG = [c for kk, cs in ([mvs['res'], mvs['fresh'], mvs['direct']] + mvs['args'] + before + after) for c in cs]
            ring = 'poly' if all(c.is_poly() for c in allG) else 'rat'
            if any(c.max_abs() >= K.INT_LIMIT for c in allG):
                raise K.EncodeError('integer too large for TLC')

            def enc(p):
                return {'keys': p[0], 'coefs': [c.to_json(ring) for c in p[1]]}
            ev = {'id': eid, 'kind': 'call', 'op': 'prog' if call['kind'] == 'prog' else call['op'],
                  'name': call['op'], 'ring': ring, 'mode': call.get('mode', 'num'),
                  'args': [enc(a) for a in mvs['args']], 'params': [int(p) for p in call.get('params', ())],
                  'raised': raised, 'res': enc(mvs['res']), 'witness': {'keys': [], 'coefs': []},
                  'hasfresh': True, 'fresh': {'raised': fraised, 'res': enc(mvs['fresh'])},
                  'before': [enc(b) for b in before], 'after': [enc(a) for a in after],
                  'hasdirect': False, 'direct': enc(mvs['direct']), 'hastree': False,
                  'tree': {'n': 'arg', 'i': 1}, 'mayraise': False}
            if call['kind'] == 'prog':
                pd = job['programs'][call['op']]
                ev['hasdirect'] = draised == '' and direct is not None
                ev['mayraise'] = bool(draised) or not P.in_listed_grammar(pd['tree'])
                if P.has_tree_semantics(pd['tree']) and not draised:
                    ev['hastree'] = True
                    ev['tree'] = P.to_json(pd['tree'], lambda v: K.G.const(v).to_json(ring))
                ev['source'] = P.src(pd['tree'])
            values.append(ev)
            if res is not None and call.get('ctype') not in ('float', 'numpy'):
                kept.append(res)
        except _Timeout:
            signal.alarm(0)
            skipped.append([eid, call['op'], 'time budget'])
            rec.enabled = True
            break
        except (K.EncodeError, ValueError) as e:
            signal.alarm(0)
            rec.enabled = True
            skipped.append([eid, call['op'], f'encode: {e}'])
        finally:
            signal.alarm(0)
    out = job['out']
    K.write_trace(out + '.values.ndjson', {'kind': 'cfg', 'u': u, 'opts': __import__('drive_ops').full_opts(opts), 'sid': job['sid']}, values)
    threads = sorted({e['t'] for e in rec.events})
    regnames = [n for n, pd in job.get('programs', {}).items() if not pd.get('symbolic')]
    with open(out + '.proto.ndjson', 'w') as f:
        f.write(json.dumps({'kind': 'hdr', 'threads': len(threads) or 1, 'registered': regnames, 'sid': job['sid']}) + '\n')
        for e in rec.events:
            e = dict(e)
            e['id'] = f"{job['sid']}#{e['seq']}"
            e.setdefault('op', '')
            e.setdefault('pat', [])
            e.setdefault('hit', False)
            e.setdefault('name', '')
            e.setdefault('fn', ['', []])
            e.setdefault('kind', '')
            e.setdefault('where2', '')
            f.write(json.dumps(e) + '\n')
    return {'values': out + '.values.ndjson', 'proto': out + '.proto.ndjson', 'n_values': len(values),
            'n_proto': len(rec.events), 'skipped': skipped, 'compiles': rec.compiles}


def run_sessions(jobs, procs=16):
    import multiprocessing as mp
    import kdriver as _K
    jobs = _K.filter_buildable(jobs)
    if not jobs:
        return []
    ctx = mp.get_context('fork')
    with ctx.Pool(min(procs, len(jobs))) as pool:
        return pool.map(run_session, jobs, chunksize=1)


# -------------------------------------------------------------------------------------------------
# threads: a cooperative scheduler forces a chosen interleaving of the GIL-atomic dict operations
# -------------------------------------------------------------------------------------------------
class Scheduler:
    """Worker threads block at every instrumented dict operation (Recorder.point) and at the start
    of every call; the controller releases exactly one thread at a time, following `order`
    (a sequence of thread names, e.g. the steps of a TLC behaviour) as far as it applies and
    round-robin afterwards.  Whatever interleaving results is a real execution; it is recorded
    and judged like any other."""

    def __init__(self, order, names, timeout=60):
        self.order = list(order)
        self.names = list(names)
        self.cv = threading.Condition()
        self.waiting = set()
        self.done = set()
        self.grant = None
        self.timeout = timeout
        self.forced = []          # the interleaving that was actually executed
        self.active = True

    def point(self, label):
        name = threading.current_thread().name
        if name not in self.names or not self.active:
            return
        with self.cv:
            self.waiting.add(name)
            self.cv.notify_all()
            ok = self.cv.wait_for(lambda: self.grant == name or not self.active, timeout=self.timeout)
            if not ok:
                self.active = False
                self.cv.notify_all()
                raise RuntimeError('scheduler timeout')
            self.grant = None
            self.waiting.discard(name)
            self.forced.append([name, str(label)])

    def finish(self, name):
        with self.cv:
            self.done.add(name)
            self.waiting.discard(name)
            self.cv.notify_all()

    def control(self):
        rr = 0
        while True:
            with self.cv:
                ok = self.cv.wait_for(lambda: self.grant is None and all(n in self.waiting or n in self.done for n in self.names),
                                      timeout=self.timeout)
                if not ok:
                    self.active = False
                    self.cv.notify_all()
                    return False
                live = [n for n in self.names if n not in self.done]
                if not live:
                    return True
                pick = None
                while self.order:
                    c = self.order.pop(0)
                    if c in live:
                        pick = c
                        break
                if pick is None:
                    pick = live[rr % len(live)]
                    rr += 1
                self.grant = pick
                self.cv.notify_all()


def run_threaded_session(job):
    """job: like run_session, but 'threads': {name: [calls]}, 'schedule': [thread names]."""
    import kdriver as K
    import instrument as I
    import programs as P
    from drive_ops import algebra_options
    u, opts = job['u'], job.get('opts', {})
    names = sorted(job['threads'])
    sched = Scheduler(job.get('schedule', []), names)
    rec = I.Recorder(yield_hook=sched.point)
    alg = K.make_algebra(u, **algebra_options(opts))
    I.instrument(alg, rec)

    def register_all(a, instrumented):
        regs = {}
        for name, pd in job.get('programs', {}).items():
            fn, code = P.make_function(pd['pyname'], pd['tree'], pd['nargs'], extra_globals=regs)
            r = a.register(fn, symbolic=pd.get('symbolic', False))
            if instrumented:
                I.instrument_registry_entry(r, rec, name)
            regs[pd['pyname']] = r
            regs['__' + name] = r
            regs['__plain_' + name] = fn
        return regs
    rec.enabled = False
    regs = register_all(alg, True)
    rec.enabled = True
    sym2id = {}
    results = {n: [] for n in names}

    def build_args(a, call, s2i):
        return [symbolic_mv(a, spec, n + 1, s2i) if call.get('mode') == 'sym' and not isinstance(spec, dict) else K.operand(a, spec, n + 1)
                for n, spec in enumerate(call['args'])]

    def perform(a, rg, call, args):
        if call['kind'] == 'prog':
            return rg['__' + call['op']](*args)
        return K.apply_op(call['op'], args, call.get('params', ()))

    def toG(v):
        if hasattr(v, 'free_symbols') and getattr(v, 'free_symbols', None):
            return sympy_to_G(v, sym2id)
        return K.coef_to_G(v)

    def snap(mv):
        return [int(k) for k in mv.keys()], [toG(v) for v in mv.values()]

    def worker(name):
        try:
            for ci, call in enumerate(job['threads'][name]):
                args = build_args(alg, call, sym2id)
                before = [snap(a) for a in args]
                sched.point(('begin', call['op']))
                rec.log('Begin', op=call['op'], pat=[[int(k) for k in a.keys()] for a in args],
                        kind='registered' if call['kind'] == 'prog' and not job['programs'][call['op']].get('symbolic') else 'operator',
                        mode=call.get('mode', 'num'))
                raised, res = '', None
                try:
                    res = perform(alg, regs, call, args)
                    rec.log('Return', cfg=I.config_changed(alg))
                except RuntimeError:
                    raise
                except Exception as e:   # noqa: BLE001
                    raised = type(e).__name__
                    rec.log('Raise', exc=raised, cfg=I.config_changed(alg))
                    rec.gen_stack.get(name, []).clear()
                results[name].append((ci, call, args, before, raised, res))
        finally:
            sched.finish(name)
    ths = [threading.Thread(target=worker, args=(n,), name=n, daemon=True) for n in names]
    for t in ths:
        t.start()
    completed = sched.control()
    for t in ths:
        t.join(timeout=5)
    rec.enabled = False
    sched.active = False
    values, skipped = [], []
    if not completed:
        skipped.append([job['sid'], 'schedule', 'scheduler timeout'])
    for name in names:
        for ci, call, args, before, raised, res in results[name]:
            eid = f"{job['sid']}:{name}.{ci}"
            try:
                after = [snap(a) for a in args]
                fresh_alg = K.make_algebra(u, **algebra_options(opts))
                fregs = register_all(fresh_alg, False)
                s2 = {}
                fargs = build_args(fresh_alg, call, s2)
                fraised, fres = '', None
                try:
                    fres = perform(fresh_alg, fregs, call, fargs)
                except Exception as e:   # noqa: BLE001
                    fraised = type(e).__name__
                ms = {'res': snap(res) if res is not None else ([], []), 'fresh': snap(fres) if fres is not None else ([], [])}
                argsn = [snap(a) for a in args]
                allG = [c for kk, cs in ([ms['res'], ms['fresh']] + argsn + before + after) for c in cs]
                ring = 'poly' if all(c.is_poly() for c in allG) else 'rat'
                if any(c.max_abs() >= K.INT_LIMIT for c in allG):
                    raise K.EncodeError('integer too large for TLC')

                def enc(p):
                    return {'keys': p[0], 'coefs': [c.to_json(ring) for c in p[1]]}
                values.append({'id': eid, 'kind': 'call', 'op': 'prog' if call['kind'] == 'prog' else call['op'], 'name': call['op'],
                               'ring': ring, 'mode': call.get('mode', 'num'), 'args': [enc(a) for a in argsn],
                               'params': [int(p) for p in call.get('params', ())], 'raised': raised, 'res': enc(ms['res']),
                               'witness': {'keys': [], 'coefs': []}, 'hasfresh': True, 'fresh': {'raised': fraised, 'res': enc(ms['fresh'])},
                               'before': [enc(b) for b in before], 'after': [enc(a) for a in after],
                               'hasdirect': False, 'direct': enc(([], [])), 'hastree': False, 'tree': {'n': 'arg', 'i': 1},
                               'mayraise': bool(fraised), 'thread': name})
            except (K.EncodeError, ValueError) as e:
                skipped.append([eid, call['op'], f'encode: {e}'])
    out = job['out']
    K.write_trace(out + '.values.ndjson', {'kind': 'cfg', 'u': u, 'opts': __import__('drive_ops').full_opts(opts), 'sid': job['sid']}, values)
    regnames = [n for n, pd in job.get('programs', {}).items() if not pd.get('symbolic')]
    with open(out + '.proto.ndjson', 'w') as f:
        f.write(json.dumps({'kind': 'hdr', 'threads': len(names), 'registered': regnames, 'sid': job['sid'],
                            'forced': sched.forced[:400]}) + '\n')
        for e in rec.events:
            e = dict(e)
            e['id'] = f"{job['sid']}#{e['seq']}"
            for k_, v_ in (('op', ''), ('pat', []), ('hit', False), ('name', ''), ('fn', ['', []]), ('kind', ''), ('where2', '')):
                e.setdefault(k_, v_)
            f.write(json.dumps(e) + '\n')
    return {'values': out + '.values.ndjson', 'proto': out + '.proto.ndjson', 'n_values': len(values),
            'n_proto': len(rec.events), 'skipped': skipped, 'compiles': rec.compiles, 'completed': completed,
            'steps_forced': len(sched.forced)}


def run_threaded_sessions(jobs, procs=16):
    import multiprocessing as mp
    import kdriver as _K
    jobs = _K.filter_buildable(jobs)
    if not jobs:
        return []
    ctx = mp.get_context('fork')
    with ctx.Pool(min(procs, len(jobs))) as pool:
        return pool.map(run_threaded_session, jobs, chunksize=1)
