"""Enumerations and samplers of configurations and key patterns (inputs only; no oracles)."""
import itertools
import random

HEX = '0123456789abcdef'


def popcount(b):
    return bin(b).count('1')


def all_sigs(d):
    return [list(s) for s in itertools.product((1, -1, 0), repeat=d)]


def pqr_list(maxd):
    return [(p, q, r) for p in range(maxd + 1) for q in range(maxd + 1) for r in range(maxd + 1) if p + q + r <= maxd]


def sig_classes(d):
    """One signature per (p,q,r) with p+q+r=d, in kingdon's own (p,q,r) ordering plus a shuffled one."""
    out = []
    for p in range(d + 1):
        for q in range(d + 1 - p):
            r = d - p - q
            out.append([1] * p + [-1] * q + [0] * r)
    return out


def canonical_order(d):
    """Default canonical order of blades as bitmasks (by grade, then by name)."""
    def name(b):
        return tuple(j for j in range(d) if b >> j & 1)
    return sorted(range(2 ** d), key=lambda b: (popcount(b), name(b)))


def all_key_tuples(d):
    blades = range(2 ** d)
    for n in range(2 ** d + 1):
        for sub in itertools.combinations(blades, n):
            yield from itertools.permutations(sub)


def all_key_subsets_canonical(d):
    order = canonical_order(d)
    for n in range(2 ** d + 1):
        for sub in itertools.combinations(order, n):
            yield tuple(sub)


def grade_block(d, grades, order=None):
    order = order or canonical_order(d)
    return tuple(b for g in sorted(grades) for b in order if popcount(b) == g)


def grade_blocks(d, order=None):
    """All non-empty sets of grades as key tuples (valid also in graded mode)."""
    out = []
    for n in range(1, d + 2):
        for gs in itertools.combinations(range(d + 1), n):
            out.append(grade_block(d, gs, order))
    return out


def random_key_tuple(rng, d, max_len=None, min_len=0):
    n = 2 ** d
    max_len = min(max_len or n, n)
    k = rng.randint(min_len, max_len)
    keys = rng.sample(range(n), k)
    return tuple(keys)


def sampled_key_tuples(rng, d, count, max_len=None, order=None):
    """A mix: grade blocks, dense canonical / binary layouts (if allowed), random sparse/permuted."""
    out = []
    gbs = grade_blocks(d, order)
    if max_len:
        gbs = [g for g in gbs if len(g) <= max_len]
    for _ in range(count):
        c = rng.random()
        if c < 0.25 and gbs:
            out.append(rng.choice(gbs))
        elif c < 0.32 and (not max_len or 2 ** d <= max_len):
            out.append(tuple(range(2 ** d)))                       # dense, binary order
        elif c < 0.38 and (not max_len or 2 ** d <= max_len):
            out.append(tuple(order or canonical_order(d)))        # dense, canonical order
        elif c < 0.42:
            out.append(())
        else:
            out.append(random_key_tuple(rng, d, max_len))
    return out


def random_custom_basis(rng, d, start=None, shuffle_vecs=True, respell=True, reorder=True):
    """A random admissible custom basis for a d-dimensional algebra: generator names
    start..start+d-1 in a random order, every blade spelled as a random permutation of its
    generators, random order within each grade.  Returns the list of names ('e', 'e2', ...)."""
    if start is None:
        start = rng.choice([0, 1, 2]) if d <= 8 else 0
    gens = [HEX[start + j] for j in range(d)]
    if shuffle_vecs:
        rng.shuffle(gens)
    basis = []
    for g in range(d + 1):
        names = []
        for comb in itertools.combinations(gens, g):
            comb = list(comb)
            if respell and g > 1:
                rng.shuffle(comb)
            names.append('e' + ''.join(comb))
        if g == 1:
            names = ['e' + x for x in gens]
        elif reorder:
            rng.shuffle(names)
        basis.extend(names)
    return basis, start


def all_custom_bases(d, start):
    """Every admissible custom basis of dimension d (d <= 2 is small: exhaustive)."""
    gens0 = [HEX[start + j] for j in range(d)]
    for gens in itertools.permutations(gens0):
        per_grade = []
        for g in range(d + 1):
            if g == 1:
                per_grade.append([['e' + x for x in gens]])
                continue
            combs = list(itertools.combinations(gens, g))
            spelled = [[('e' + ''.join(p)) for p in itertools.permutations(c)] for c in combs]
            options = []
            for choice in itertools.product(*spelled):
                for perm in itertools.permutations(choice):
                    options.append(list(perm))
            per_grade.append(options)
        for choice in itertools.product(*per_grade):
            yield [n for grade in choice for n in grade]
