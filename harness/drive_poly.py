"""C17 events: operations on kingdon's Polynomial / RationalPolynomial objects, with the stored
representation (args) of operands and result, the zero tests and the sympy form."""
import os
import sys
import json
import random
from fractions import Fraction

sys.path.insert(0, os.path.dirname(os.path.abspath(__file__)))
NAMES = ['a', 'a1', 'b', 'c', 'x12']          # python string order = rank order
RANK = {n: i + 1 for i, n in enumerate(sorted(NAMES))}


class _NotEncodable(Exception):
    """coefficients left the range the trace format represents (not an error of the library)"""


def run_job(job):
    import sympy
    import kdriver as K            # noqa: F401  (puts $KINGDON_SRC first on the path)
    from kingdon.polynomial import Polynomial, RationalPolynomial
    rng = random.Random(job['seed'])
    events = []

    def frac(c):
        f = Fraction(c)
        if f.denominator > 64 or abs(f.numerator) > 10 ** 6:
            raise _NotEncodable()
        return [f.numerator, f.denominator]

    def encP(p):
        out = []
        for mono in p.args:
            out.append([frac(mono[0])] + [RANK[v] for v in mono[1:]])
        return out

    def enc(x):
        if isinstance(x, RationalPolynomial):
            if not isinstance(x.numer, Polynomial) or not isinstance(x.denom, Polynomial):
                raise TypeError('malformed RationalPolynomial (numerator/denominator is not a Polynomial)')
            return 'R', {'numer': encP(x.numer), 'denom': encP(x.denom)}
        if isinstance(x, Polynomial):
            return 'P', encP(x)
        raise TypeError(f'not a polynomial: {type(x).__name__}')

    def from_model(rep):
        """model representation [[ [n,d], v...]...] -> Polynomial"""
        inv = {v: k for k, v in RANK.items()}
        args = []
        for mono in rep:
            n, d = mono[0]
            c = n if d == 1 else n / d
            args.append([c] + [inv[v] for v in mono[1:]])
        return Polynomial(args)

    def canonical(p):
        acc = {}
        for mono in p.args:
            key = tuple(mono[1:])
            acc[key] = acc.get(key, 0) + mono[0]
        args = [[c, *key] for key, c in sorted(acc.items()) if c != 0]
        return Polynomial(args)

    def symform(x):
        e = sympy.together(sympy.nsimplify(x.tosympy()))
        n, d = sympy.fraction(e)
        syms = sorted(e.free_symbols, key=lambda s: s.name)

        def poly(z):
            if not syms:
                z = sympy.nsimplify(z)
                return [[int(z.p), []]] if z != 0 else [], int(z.q) if z != 0 else 1
            P = sympy.Poly(sympy.expand(z), *syms)
            terms, L = [], 1
            from math import lcm
            for pw, c in P.terms():
                L = lcm(L, int(sympy.nsimplify(c).q))
            for pw, c in P.terms():
                c = sympy.nsimplify(c)
                mono = []
                for s, k in zip(syms, pw):
                    mono += [RANK[s.name]] * int(k)
                terms.append([int(c.p * (L // c.q)), sorted(mono)])
            return terms, L
        pn, ln = poly(n)
        pd, ld = poly(d)
        # n/ln over d/ld  =  (n*ld) / (d*ln)
        return {'n': [[c * ld, m] for c, m in pn], 'd': [[c * ln, m] for c, m in pd]}

    def record(eid, op, a, b=None, n=0):
        ev = {'id': eid, 'kind': 'poly', 'op': op, 'n': int(n), 'raised': '', 'bnum': False, 'bcls': 'P', 'b': [], 'b_after': [],
              'rcls': 'P', 'res': [], 'zdiff': {'rep': [], 'bool': False, 'eq0': True}, 'res_bool': False, 'res_eq0': False, 'a_eq_b': False, 'hassym': False, 'sym': {'n': [], 'd': []}}
        ev['cls'], ev['a'] = enc(a)
        if b is not None:
            if isinstance(b, (int, float, Fraction)):
                ev['bnum'], ev['b'] = True, frac(b)
            else:
                ev['bcls'], ev['b'] = enc(b)
        try:
            if op == 'add':
                r = a + b
            elif op == 'sub':
                r = a - b
            elif op == 'mul':
                r = a * b
            elif op == 'div':
                r = a / b
            elif op == 'radd':
                r = b + a
            elif op == 'rsub':
                r = b - a
            elif op == 'rmul':
                r = b * a
            elif op == 'rdiv':
                r = b / a
            elif op == 'neg':
                r = -a
            elif op == 'pos':
                r = +a
            elif op == 'inv':
                r = a.inv()
            elif op == 'pow':
                r = a ** n
            if isinstance(r, (int, float)):
                r = Polynomial(r)
            ev['rcls'], ev['res'] = enc(r)
            # the same function built as a canonical (sorted, merged) polynomial: their difference is the
            # zero function, so its zero tests must say so
            if isinstance(r, Polynomial) and not isinstance(r, RationalPolynomial):
                z = r - canonical(r)
                ev['zdiff'] = {'rep': enc(z)[1], 'bool': bool(z), 'eq0': bool(z == 0)}
            elif isinstance(r, RationalPolynomial) and isinstance(r.numer, Polynomial):
                z = r.numer - canonical(r.numer)
                ev['zdiff'] = {'rep': enc(z)[1], 'bool': bool(z), 'eq0': bool(z == 0)}
            ev['res_bool'] = bool(r)
            ev['res_eq0'] = bool(r == 0)
            if b is not None and not ev['bnum']:
                ev['a_eq_b'] = bool(a == b)
            try:
                ev['sym'] = symform(r)
                ev['hassym'] = True
            except (ZeroDivisionError, KeyError, AttributeError):
                pass
        except _NotEncodable:
            return None, (r if isinstance(r, (Polynomial, RationalPolynomial)) else None)
        except ZeroDivisionError:
            ev['raised'] = 'ZeroDivisionError'
            r = None
        except Exception as e:   # noqa: BLE001
            ev['raised'] = type(e).__name__
            r = None
        ev['a_after'] = enc(a)[1]   # (operands were encodable before the call)
        if b is not None and not ev['bnum']:
            ev['b_after'] = enc(b)[1]
        if ev['raised'] == 'ZeroDivisionError':
            return None, r
        return ev, r

    # (1) spec -> code: every (p, q) state of the TLC dump
    for i, (p, q) in enumerate(job.get('states', [])):
        P_, Q_ = from_model(p), from_model(q)
        for op in ('add', 'mul', 'neg', 'sub'):
            try:
                ev, _ = record(f"{job['prefix']}:s{i}.{op}", op, P_, Q_ if op != 'neg' else None)
                if ev:
                    events.append(ev)
            except (_NotEncodable, TypeError):
                pass
    # (2) random walks over a pool of both classes (beyond the model's bounds)
    for w in range(job.get('walks', 0)):
        pool = [Polynomial.fromname(n) for n in rng.sample(NAMES, 3)] + [Polynomial(rng.choice([0, 1, 2, -1, 0.5]))]
        pool += [RationalPolynomial.fromname(n) for n in rng.sample(NAMES, 3)] + [RationalPolynomial([[rng.choice([1, 2, -3])]]), RationalPolynomial([])]
        for s in range(job['steps']):
            op = rng.choice(['add', 'sub', 'mul', 'mul', 'add', 'neg', 'pow', 'div', 'inv', 'pos', 'radd', 'rsub', 'rmul', 'rdiv'])
            a = rng.choice(pool)
            b, n = None, 0
            if op in ('add', 'sub', 'mul', 'div'):
                # operands of ONE class (code generation never mixes them), or a plain number on the right;
                # divisors that are numbers are dyadic so that python floats stay exact
                same = [x for x in pool if type(x) is type(a)]
                b = rng.choice(same) if rng.random() < 0.8 else (rng.choice([0, 1, 2, -1, 3, 0.5]) if op != 'div' else rng.choice([2, 4, -2, 0.5]))
                if op == 'div' and type(a) is Polynomial and isinstance(b, Polynomial) and rng.random() < 0.5:
                    continue
            if op in ('radd', 'rsub', 'rmul', 'rdiv'):
                # a plain number on the LEFT (generated code contains e.g. `1 - p` and `1/p`); quotients only of rational polynomials
                b = rng.choice([0, 1, 2, -1, 3, 0.5]) if op != 'rdiv' else rng.choice([1, 2, -1, 4])
                if op == 'rdiv' and not isinstance(a, RationalPolynomial):
                    continue
            if op == 'inv' and not isinstance(a, RationalPolynomial):
                continue
            if op == 'pow':
                n = rng.choice([0, 1, 2, 3, 5] + ([-1, -2] if isinstance(a, RationalPolynomial) else []))
            try:
                ev, r = record(f"{job['prefix']}:w{w}.{s}", op, a, b, n)
            except _NotEncodable:
                continue
            except TypeError as e:
                events.append({'id': f"{job['prefix']}:w{w}.{s}", 'kind': 'poly', 'malformed': str(e)[:100], 'op': op})
                continue
            if ev:
                events.append(ev)
            if r is not None and isinstance(r, (Polynomial, RationalPolynomial)):
                try:
                    enc(r)
                    size = len(r.args) if isinstance(r, Polynomial) else len(r.numer.args) + len(r.denom.args)
                    undefined = isinstance(r, RationalPolynomial) and r.denom == 0       # result of dividing by the zero function
                    if size <= 8 and not undefined:
                        pool.append(r)
                except (_NotEncodable, ValueError, TypeError):
                    pass
            if len(pool) > 14:
                pool.pop(rng.randrange(len(pool)))
    good = [e for e in events if 'malformed' not in e]
    malformed = [e for e in events if 'malformed' in e]
    with open(job['out'], 'w') as f:
        for ev in good:
            f.write(json.dumps(ev) + '\n')
    return {'out': job['out'], 'events': len(good), 'malformed': malformed}


def run_jobs(jobs, procs=16):
    import multiprocessing as mp
    if not jobs:
        return []
    with mp.get_context('fork').Pool(min(procs, len(jobs))) as pool:
        return pool.map(run_job, jobs, chunksize=1)
