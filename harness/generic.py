"""Generic coefficients: exact rational functions over Z in formal indeterminates.

A value of class G is a quotient n/d of two polynomials with integer coefficients, each a dict
{monomial: coefficient} where a monomial is a sorted tuple of variable ids (repetition = power).
G is *not* a sympy object, so kingdon treats it as a number: the numeric (and wrapper) code path
is used, exactly as for int/float/Fraction.  Feeding distinct indeterminates through a generated
function records, per output blade, the polynomial (rational function) that function computes;
an identity between such polynomials over Z holds for every value in every commutative ring.

The class never decides a property: it only records.  Equality of recorded results with the
reference semantics is decided by TLC (spec/PolyRing.tla, spec/MultivectorRef.tla).
"""
from fractions import Fraction
from math import gcd
from functools import reduce
import numbers


def _padd(p, q, sq=1):
    r = dict(p)
    for m, c in q.items():
        v = r.get(m, 0) + sq * c
        if v:
            r[m] = v
        else:
            r.pop(m, None)
    return r


def _pmul(p, q):
    if not p or not q:
        return {}
    r = {}
    for m1, c1 in p.items():
        for m2, c2 in q.items():
            m = tuple(sorted(m1 + m2))
            v = r.get(m, 0) + c1 * c2
            if v:
                r[m] = v
            else:
                r.pop(m, None)
    return r


_ONE = {(): 1}
SNAPPED = [0]     # number of float constants recorded as nearby small-denominator fractions


class G:
    __slots__ = ('n', 'd')
    # make numpy defer to us in mixed expressions
    __array_priority__ = 1000

    def __init__(self, n, d=None):
        self.n = n
        self.d = _ONE if d is None else d
        self._norm()

    # -- construction helpers -------------------------------------------------------------
    @classmethod
    def var(cls, vid):
        return cls({(int(vid),): 1})

    @classmethod
    def const(cls, k):
        if isinstance(k, G):
            return k
        if isinstance(k, bool):
            k = int(k)
        if isinstance(k, numbers.Integral):
            k = int(k)
            return cls({(): k} if k else {})
        if isinstance(k, Fraction):
            return cls({(): k.numerator} if k.numerator else {}, {(): k.denominator})
        if isinstance(k, float) and k == int(k):
            return cls.const(int(k))
        if isinstance(k, float):
            # Floats appear as constants of generated code (1/3! is printed as 0.1666...).  A float
            # within relative 1e-12 of a fraction with denominator <= 10^6 is recorded as that
            # fraction ("to rounding"); the number of snaps is reported in the evidence.
            f = Fraction(k)
            g = f.limit_denominator(10 ** 6)
            if g != f and abs(float(g) - k) <= 1e-12 * max(1.0, abs(k)):
                SNAPPED[0] += 1
                f = g
            return cls.const(f)
        # numpy scalars
        if hasattr(k, 'item'):
            return cls.const(k.item())
        raise TypeError(f'cannot lift {type(k).__name__} to a generic coefficient')

    def _norm(self):
        if not self.d:
            raise ZeroDivisionError('generic coefficient with zero denominator')
        if not self.n:
            self.d = _ONE
            return
        g = reduce(gcd, list(self.n.values()) + list(self.d.values()))
        # make the leading (smallest monomial) denominator coefficient positive
        lead = self.d[min(self.d)]
        if lead < 0:
            g = -g
        if g != 1:
            self.n = {m: c // g for m, c in self.n.items()}
            self.d = {m: c // g for m, c in self.d.items()}
        if self.d == self.n:
            self.n = self.d = _ONE

    # -- arithmetic ----------------------------------------------------------------------
    @staticmethod
    def _lift(o):
        if isinstance(o, G):
            return o
        try:
            return G.const(o)
        except TypeError:
            return None

    def __add__(self, o):
        o = self._lift(o)
        if o is None:
            return NotImplemented
        if self.d == o.d:
            return G(_padd(self.n, o.n), self.d)
        return G(_padd(_pmul(self.n, o.d), _pmul(o.n, self.d)), _pmul(self.d, o.d))
    __radd__ = __add__

    def __neg__(self):
        return G({m: -c for m, c in self.n.items()}, self.d)

    def __pos__(self):
        return self

    def __sub__(self, o):
        o = self._lift(o)
        if o is None:
            return NotImplemented
        return self + (-o)

    def __rsub__(self, o):
        o = self._lift(o)
        if o is None:
            return NotImplemented
        return o + (-self)

    def __mul__(self, o):
        o = self._lift(o)
        if o is None:
            return NotImplemented
        return G(_pmul(self.n, o.n), _pmul(self.d, o.d))
    __rmul__ = __mul__

    def inverse(self):
        if not self.n:
            raise ZeroDivisionError('division by the zero generic coefficient')
        return G(self.d, self.n)

    def __truediv__(self, o):
        o = self._lift(o)
        if o is None:
            return NotImplemented
        return self * o.inverse()

    def __rtruediv__(self, o):
        o = self._lift(o)
        if o is None:
            return NotImplemented
        return o * self.inverse()

    def __pow__(self, k, mod=None):
        if isinstance(k, float) and k == int(k):
            k = int(k)
        if hasattr(k, 'item') and not isinstance(k, (int, float)):
            k = k.item()
        if not isinstance(k, numbers.Integral):
            raise TypeError('generic coefficients support integer powers only')
        k = int(k)
        base = self if k >= 0 else self.inverse()
        r = G(_ONE)
        for _ in range(abs(k)):
            r = r * base
        return r

    # -- observation (never used by generated code; used by the recorder) ------------------
    def is_poly(self):
        return self.d == _ONE

    def is_zero(self):
        return not self.n

    def __eq__(self, o):
        o = self._lift(o)
        if o is None:
            return NotImplemented
        return _pmul(self.n, o.d) == _pmul(o.n, self.d)

    def __ne__(self, o):
        r = self.__eq__(o)
        return r if r is NotImplemented else not r

    def __hash__(self):
        return hash((frozenset(self.n.items()), frozenset(self.d.items())))

    def __bool__(self):
        return bool(self.n)

    def __repr__(self):
        def ps(p):
            if not p:
                return '0'
            return ' + '.join(f'{c}' + ''.join(f'*v{v}' for v in m) for m, c in sorted(p.items()))
        return f'G({ps(self.n)})' if self.is_poly() else f'G(({ps(self.n)})/({ps(self.d)}))'

    # -- JSON ----------------------------------------------------------------------------
    @staticmethod
    def _pjson(p):
        return [[int(c), [int(v) for v in m]] for m, c in sorted(p.items())]

    def to_json(self, ring):
        if ring == 'poly':
            assert self.is_poly()
            return self._pjson(self.n)
        return {'n': self._pjson(self.n), 'd': self._pjson(self.d)}

    def max_abs(self):
        return max([abs(c) for c in self.n.values()] + [abs(c) for c in self.d.values()] + [0])

    def subs(self, env):
        """Evaluate at {var id: Fraction/int}; exact."""
        def ev(p):
            t = Fraction(0)
            for m, c in p.items():
                x = Fraction(c)
                for v in m:
                    x *= env[v]
                t += x
            return t
        return ev(self.n) / ev(self.d)


def lift(v):
    """Lift a plain number / Fraction / G to G (used when recording numeric results)."""
    return G.const(v)
