"""C15 events: build multivectors through every documented form and read them back through every
accessor.  One algebra instance serves a whole job (accessors must not depend on what was built or
read before)."""
import os
import sys
import json
import random
import itertools

sys.path.insert(0, os.path.dirname(os.path.abspath(__file__)))
HEX = '0123456789abcdef'
PRIMES = [2, 3, 5, 7, 11, 13, 17, 19, 23, 29, 31, 37, 41, 43, 47, 53, 59, 61, 67, 71, 73, 79, 83, 89, 97, 101, 103, 107, 109, 113, 127, 131]


def digits(name):
    return [int(ch, 16) for ch in name[1:]]


GARBAGE = 10 ** 6 + 7


def _wrap(vtype, p):
    """embed the integer p in a value of the given type"""
    import numpy as np
    import sympy
    from fractions import Fraction
    if vtype == 'int':
        return p
    if vtype == 'float':
        return float(p)
    if vtype == 'frac':
        return Fraction(p)
    if vtype == 'npfloat':
        return np.float64(p)
    if vtype == 'sympyint':
        return sympy.Integer(p)
    if vtype == 'symbol':
        return sympy.Symbol(f'v{abs(p)}') * (1 if p >= 0 else -1) if p else sympy.Integer(0)
    if vtype == 'str':
        if p and abs(p) % 3 != 1:          # a COMPOUND expression (a sum at top level): negating it needs parentheses
            return f'1+v{p}-1' if p > 0 else f'1-v{-p}-1'
        return (f'v{p}' if p > 0 else f'-v{-p}') if p else '0'
    if vtype == 'array':
        return np.array([p, 2 * p])
    raise ValueError(vtype)


def _tag(v):
    """recover the embedded integer from whatever an accessor returned (GARBAGE if it is not of the expected form)"""
    import numpy as np
    import sympy
    from fractions import Fraction
    try:
        if isinstance(v, np.ndarray):
            f = v.reshape(-1)
            if f.size == 2 and f[1] == 2 * f[0] and f[0] == int(f[0]):
                return int(f[0])
            return GARBAGE
        if isinstance(v, sympy.Basic):
            if v.is_Integer:
                return int(v)
            c, sym = v.as_coeff_Mul()
            if c.is_Integer and isinstance(sym, sympy.Symbol) and sym.name[:1] == 'v' and sym.name[1:].isdigit():
                return int(c) * int(sym.name[1:])
            # symbols created BY NAME: 'w' + the digits of the blade name  ->  9<digits>
            if c.is_Integer and isinstance(sym, sympy.Symbol) and sym.name[:1] == 'w' and (sym.name[1:].isdigit() or sym.name == 'w'):
                return int(c) * int('9' + sym.name[1:])
            return GARBAGE
        if isinstance(v, (int, float, Fraction, np.floating, np.integer)) and v == int(v):
            return int(v)
    except Exception:   # noqa: BLE001
        pass
    return GARBAGE


def _sibling_warmup(alg, names):
    """State must not leak between algebras of one process: before anything is recorded, every spelling of every blade is
    looked up (unrecorded) in a SIBLING algebra with the same generator labels and signature whose blades of grade >= 2
    are all oriented the other way (first two generators of the spelling swapped)."""
    import itertools
    try:
        from kingdon import Algebra
        if alg.d > 5:
            return
        sib_names = [nm if len(nm) < 3 else 'e' + nm[2] + nm[1] + nm[3:] for nm in names]
        sib = Algebra(signature=[int(x) for x in alg.signature], basis=sib_names, start_index=alg.start_index)
        x = sib.multivector(values=list(range(1, len(sib_names) + 1)), keys=tuple(sib.canon2bin.values()))
        for nm in sib_names:
            for perm in itertools.islice(itertools.permutations(nm[1:]), 24):
                sp = 'e' + ''.join(perm)
                for f in (lambda: getattr(x, sp), lambda: getattr(sib.blades, sp), lambda: sib.multivector(**{sp: 1})):
                    try:
                        f()
                    except Exception:   # noqa: BLE001
                        pass
    except Exception:   # noqa: BLE001
        pass


def run_job(job):
    import kdriver as K
    from drive_ops import algebra_options
    from kingdon import MultiVector
    rng = random.Random(job['seed'])
    u, opts = job['u'], job.get('opts', {})
    alg = K.make_algebra(u, **algebra_options(opts))
    d = alg.d
    names = list(alg.canon2bin.keys())
    bins = list(alg.canon2bin.values())
    graded = bool(opts.get('graded'))
    gens = [nm[1:] for nm in names if len(nm) == 2]
    events = []
    _sibling_warmup(alg, names)

    def respell(nm):
        ch = list(nm[1:])
        rng.shuffle(ch)
        return 'e' + ''.join(ch)

    def grade_keys(gs):
        return [b for g in sorted(gs) for b in bins if bin(b).count('1') == g]

    for ci in range(job['n']):
        form = rng.choice(job['forms'])
        eid = f"{job['prefix']}:{ci}"
        vals = rng.sample(PRIMES, len(PRIMES))
        while len(vals) < len(bins):          # large graded layouts need more distinct values than there are primes in the list
            vals.append(PRIMES[len(vals) % len(PRIMES)] + 1000 * (len(vals) // len(PRIMES)))
        vals = [v if rng.random() < 0.7 else -v for v in vals]
        valid, supplied, build = True, [], None
        mayrefuse = False
        # value type of this case: the supplied integer p is embedded in a value of that type (wrap) and recovered from
        # whatever the accessors return (tag); 'str' values are sympified by the constructor
        vtype = rng.choice(job.get('vtypes') or ['int'])
        wrap = lambda p_, vt=vtype: _wrap(vt, p_)        # noqa: E731
        W = lambda seq: [wrap(x) for x in seq]            # noqa: E731
        if graded:
            gs = sorted(rng.sample(range(d + 1), rng.randint(1, d + 1)))
            ks = grade_keys(gs)
        else:
            ks = rng.sample(bins, rng.randint(0 if form not in ('kwargs',) else 1, min(len(bins), 6)))
        kn = [alg.bin2canon[k] for k in ks]
        vs = vals[:len(ks)]
        if form == 'kv_int':
            supplied = [[digits(n), v] for n, v in zip(kn, vs)]
            build = lambda: alg.multivector(values=W(vs), keys=tuple(ks))
        elif form == 'kv_name':
            supplied = [[digits(n), v] for n, v in zip(kn, vs)]
            build = lambda: alg.multivector(keys=tuple(kn), values=W(vs))
        elif form == 'mapping_int':
            supplied = [[digits(n), v] for n, v in zip(kn, vs)]
            build = lambda: alg.multivector(dict(zip(ks, W(vs))))
        elif form == 'mapping_name':
            supplied = [[digits(n), v] for n, v in zip(kn, vs)]
            build = lambda: alg.multivector(dict(zip(kn, W(vs))))
        elif form == 'kwargs':
            sp = [respell(n) if rng.random() < 0.7 else n for n in kn]
            order = list(range(len(sp)))
            rng.shuffle(order)
            supplied = [[digits(sp[i]), vs[i]] for i in order]
            build = lambda: alg.multivector(**{sp[i]: wrap(vs[i]) for i in order})
        elif form == 'grades_list':
            gs = sorted(rng.sample(range(d + 1), rng.randint(1, min(2, d + 1))))
            ks2 = grade_keys(gs)
            vs2 = vals[:len(ks2)]
            supplied = [[digits(alg.bin2canon[k]), v] for k, v in zip(ks2, vs2)]
            build = lambda: alg.multivector(W(vs2), grades=tuple(gs))
        elif form == 'full':
            vs2 = vals[:len(bins)]
            supplied = [[digits(alg.bin2canon[k]), v] for k, v in zip(bins, vs2)]
            build = lambda: alg.multivector(W(vs2))
        elif form == 'helper':
            helper = rng.choice(['scalar', 'vector', 'bivector', 'evenmv', 'oddmv', 'pseudoscalar', 'pseudovector', 'purevector'])
            g = {'scalar': [0], 'vector': [1], 'bivector': [2], 'evenmv': [x for x in range(d + 1) if x % 2 == 0],
                 'oddmv': [x for x in range(d + 1) if x % 2 == 1], 'pseudoscalar': [d], 'pseudovector': [d - 1], 'purevector': [rng.randint(0, d)]}[helper]
            if any(x < 0 or x > d for x in g) or not g:
                g = [0]
                helper = 'scalar'
            ks2 = grade_keys(g)
            vs2 = vals[:len(ks2)]
            supplied = [[digits(alg.bin2canon[k]), v] for k, v in zip(ks2, vs2)]
            if rng.random() < 0.5 or helper == 'purevector':
                build = (lambda: getattr(alg, helper)(W(vs2))) if helper != 'purevector' else (lambda: alg.purevector(W(vs2), grade=g[0]))
            else:
                sp = [respell(alg.bin2canon[k]) for k in ks2]
                supplied = [[digits(s), v] for s, v in zip(sp, vs2)]
                build = lambda: getattr(alg, helper)(**{s: wrap(v) for s, v in zip(sp, vs2)})
        elif form == 'grades_kv':
            gs = sorted({bin(k).count('1') for k in ks} | ({rng.randint(0, d)} if rng.random() < 0.5 else set()))
            supplied = [[digits(n), v] for n, v in zip(kn, vs)]
            build = lambda: alg.multivector(keys=tuple(ks), values=W(vs), grades=tuple(gs))
        elif form == 'graded_perm':
            # graded mode: the complete grades, but the keys in ANOTHER order -- the library may refuse this (it does), but
            # must not build a multivector whose coefficients sit on other blades
            if not graded or len(ks) < 2:
                continue
            order = list(range(len(ks)))
            while order == sorted(order):
                rng.shuffle(order)
            kp, vp = [ks[i] for i in order], [vs[i] for i in order]
            supplied = [[digits(alg.bin2canon[k]), v] for k, v in zip(kp, vp)]
            mayrefuse = True
            build = (lambda: alg.multivector(keys=tuple(kp), values=W(vp))) if rng.random() < 0.5 else \
                (lambda: alg.multivector(keys=tuple(alg.bin2canon[k] for k in kp), values=W(vp)))
        elif form.startswith('byname'):
            # symbolic multivectors created by name: the coefficient of blade e<digits> is the symbol w<digits>
            vtype = 'symbol'
            wrap = lambda p_: _wrap('symbol', p_)        # noqa: E731   (map / filter keep working on tags)
            wtag = lambda nm_: int('9' + nm_[1:])         # noqa: E731
            if form == 'byname_full':
                supplied = [[digits(alg.bin2canon[k]), wtag(alg.bin2canon[k])] for k in bins]
                build = lambda: alg.multivector(name='w')
            elif form == 'byname_keys':
                ks3 = ks or [bins[0]]
                use_names = rng.random() < 0.5
                supplied = [[digits(alg.bin2canon[k]), wtag(alg.bin2canon[k])] for k in ks3]
                build = lambda: alg.multivector(name='w', keys=tuple(alg.bin2canon[k] for k in ks3) if use_names else tuple(ks3))
            elif form == 'byname_grades':
                gs = sorted(rng.sample(range(d + 1), rng.randint(1, min(3, d + 1))))
                ks3 = grade_keys(gs)
                supplied = [[digits(alg.bin2canon[k]), wtag(alg.bin2canon[k])] for k in ks3]
                build = lambda: alg.multivector(name='w', grades=tuple(gs))
            else:
                helper = rng.choice(['scalar', 'vector', 'bivector', 'evenmv', 'oddmv', 'pseudoscalar'])
                g = {'scalar': [0], 'vector': [1], 'bivector': [2], 'evenmv': [x for x in range(d + 1) if x % 2 == 0],
                     'oddmv': [x for x in range(d + 1) if x % 2 == 1], 'pseudoscalar': [d]}[helper]
                g = [x for x in g if 0 <= x <= d] or [0]
                if g == [0]:
                    helper = 'scalar'
                ks3 = grade_keys(g)
                supplied = [[digits(alg.bin2canon[k]), wtag(alg.bin2canon[k])] for k in ks3]
                build = lambda: getattr(alg, helper)(name='w')
        elif form == 'blade':
            nm = respell(rng.choice(names))
            supplied = [[digits(nm), 1]]
            build = lambda: alg.blades[nm]
        # -- inconsistent input: must raise ---------------------------------------------------
        elif form == 'bad_length':
            valid = False
            ks = ks or [bins[0]]
            build = lambda: alg.multivector(keys=tuple(ks), values=list(vals[:len(ks)]) + [991])     # one value too many
        elif form == 'bad_grade_keys':
            valid = False
            k = rng.choice([b for b in bins if bin(b).count('1') >= 1]) if d >= 1 else None
            if k is None:
                continue
            g = [x for x in range(d + 1) if x != bin(k).count('1')][:1]
            build = lambda: alg.multivector(keys=(k,), values=[5], grades=tuple(g))
        elif form == 'bad_grades':
            valid = False
            build = lambda: alg.multivector(values=[1], grades=(d + 1 + rng.randint(0, 2),))
        elif form == 'bad_graded_incomplete':
            valid = False
            cand = [g for g in range(d + 1) if len(grade_keys([g])) >= 2]
            if not graded or not cand:
                continue
            ks2 = grade_keys([rng.choice(cand)])[:-1]
            build = lambda: alg.multivector(keys=tuple(ks2), values=list(vals[:len(ks2)]))
        else:
            continue
        ev = {'id': eid, 'kind': 'construct', 'u': u, 'graded': graded, 'form': form, 'valid': valid, 'raised': '', 'vtype': vtype, 'mayrefuse': mayrefuse,
              'supplied': supplied, 'items': {'keys': [], 'coefs': []}, 'reads': [], 'contains': [], 'grade': [], 'full': [],
              'mapped': {'keys': [], 'coefs': []}, 'filtered': [0, [], []]}
        try:
            mv = build()
        except Exception as e:   # noqa: BLE001
            ev['raised'] = type(e).__name__
            events.append(ev)
            continue
        if not valid:
            events.append(ev)
            continue
        try:
            ev['items'] = {'keys': [int(k) for k, v in mv.items()], 'coefs': [_tag(v) for k, v in mv.items()]}
            # attribute access with spellings: all permutations for small blades, sampled otherwise
            spellings = []
            for nm in names:
                perms = list(itertools.permutations(nm[1:]))
                if len(perms) > 6:
                    perms = rng.sample(perms, 4)
                spellings += ['e' + ''.join(p) for p in perms]
            if len(spellings) > 60:
                spellings = rng.sample(spellings, 60)
            rng.shuffle(spellings)
            # (a generator OUTSIDE the algebra is not a spelling of one of its blades: the property says
            # nothing about it, so it is not read; see DESIGN.md, Corrections)
            for sp in spellings:
                ev['reads'].append([digits(sp), _tag(getattr(mv, sp))])
            ev['contains'] = [[int(b), bool(b in mv)] for b in rng.sample(bins, min(len(bins), 8))] + \
                             [[int(alg.canon2bin[n]), bool(n in mv)] for n in rng.sample(names, min(len(names), 4))]
            for _ in range(3):
                gs = sorted(rng.sample(range(d + 1), rng.randint(0, d + 1)))
                g = mv.grade(*gs) if rng.random() < 0.5 or not gs else mv.grade(tuple(gs))
                ev['grade'].append([gs, [int(k) for k in g.keys()], [_tag(v) for v in g.values()]])
            for canonical in (True, False):
                f = mv.asfullmv(canonical=canonical)
                ev['full'].append([canonical, [int(k) for k in f.keys()], [_tag(v) for v in f.values()]])
            # map / filter accept a function of the value, or of (key, value): the second form must be handed the key OF that value
            key_of = {_tag(v): int(k) for k, v in mv.items()}
            mt = 'symbol' if vtype == 'str' else vtype          # (strings are only sympified by the constructor)
            if rng.random() < 0.5:
                mp = mv.map(lambda v: _wrap(mt, 3 * _tag(v) + 1))
            else:
                mp = mv.map(lambda k, v: _wrap(mt, 3 * _tag(v) + 1 if key_of.get(_tag(v)) == int(k) else 999983))
            ev['mapped'] = {'keys': [int(k) for k in mp.keys()], 'coefs': [_tag(v) for v in mp.values()]}
            t = rng.choice([-50, 0, 10, 40])
            if rng.random() < 0.5:
                fl = mv.filter(lambda v: _tag(v) > t)
            else:
                fl = mv.filter(lambda k, v: _tag(v) > t and key_of.get(_tag(v)) == int(k))
            ev['filtered'] = [t, [int(k) for k in fl.keys()], [_tag(v) for v in fl.values()]]
        except Exception as e:   # noqa: BLE001
            ev['raised'] = 'accessor:' + type(e).__name__
        events.append(ev)
    with open(job['out'], 'w') as f:
        for ev in events:
            f.write(json.dumps(ev) + '\n')
    return {'out': job['out'], 'events': len(events)}


def run_jobs(jobs, procs=16):
    import multiprocessing as mp
    import kdriver as _K
    jobs = _K.filter_buildable(jobs)
    if not jobs:
        return []
    with mp.get_context('fork').Pool(min(procs, len(jobs))) as pool:
        return pool.map(run_job, jobs, chunksize=1)
