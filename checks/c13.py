"""C13 - algebra options change speed, never results.

The option vector {cse} x {graded} x {codegen_symbolcls: RationalPolynomial | sympy} x {wrapper} (+ pretty
printing) is part of the trace header; the reference semantics ignores it.  The same cases (grade-block
key patterns, valid in every mode; every operator; formal indeterminates) are replayed under all 16
option vectors and TLC validates every trace against the SAME reference value, so results coincide
across options.  Graded mode: an operation that the default mode performs must not raise (total
operators of the reference), and every result stores complete grades in canonical order."""
import itertools
import patterns as P
from kdriver import ucfg, named_ucfg
from opscheck import run_plan
from plans import arity
from refmc import run_ref_mc

OPS = ['gp', 'op', 'ip', 'lc', 'rc', 'sp', 'cp', 'acp', 'rp', 'sw', 'proj', 'add', 'sub', 'neg', 'reverse', 'involute',
       'conjugate', 'hodge', 'unhodge', 'unpolarity', 'polarity', 'dual', 'undual', 'normsq', 'outerexp', 'outersin', 'outercos',
       'inv', 'div', 'grade', 'pow']


def fingerprint(header, ev, clause):
    u = header['u']
    sig = u['sig'] if u['mode'] == 'sig' else [0] * u['r'] + [1] * u['p'] + [-1] * u['q']
    return {'degenerate': 0 in sig, 'cse': header['opts']['cse'], 'symbolcls': header['opts']['symbolcls'], 'wrapper': header['opts']['wrapper']}


def certificates_under_options(ctx, vectors):
    """The irrational functions (sqrt, x ** 0.5, norm, normalized, exp) are decided by certificates (as in C19); the SAME
    operands (same job seed) are evaluated under every option vector, and every result must pass the same certificate."""
    import os
    import json
    from drive_cert import run_jobs
    from drive_ops import lookup_event
    from opscheck import describe_cfg
    q = ctx.quick
    us = [ucfg(sig=s) for s in ([1, 1], [0, 1], [1, 1, 1], [1, 1, -1], [0, 1, 1])] + ([] if q else [ucfg(sig=s) for s in ([1, -1], [1, 1, 1, -1], [0, 1, 1, 1])] + [named_ucfg('2DPGA')])
    tdir = os.path.join(ctx.work, 'certopts')
    os.makedirs(tdir, exist_ok=True)
    jobs = []
    for i, u in enumerate(us):
        for j, v in enumerate(vectors):
            opts = {k: x for k, x in v.items() if x not in (None,)}
            jobs.append({'u': u, 'opts': opts, 'n': 16 if q else 80, 'seed': ctx.seed + 53 * i, 'out': os.path.join(tdir, f'o{i}_{j}.ndjson'), 'prefix': f'o{i}.{j}',
                         'kinds': ['sqrt', 'sqrt', 'powhalf', 'norm', 'normalized', 'exp'], 'vtypes': ['float', 'int_over']})
    res = run_jobs(jobs)
    files = [r['out'] for r in res if r['events']]
    n = 0
    for f, (eid, clause) in ctx.validate('TraceOps.tla', 'TraceOps.cfg', files):
        header, ev = lookup_event(f, eid)
        if clause.startswith('MACHINERY'):
            from tlc import MachineryError
            raise MachineryError(f'{eid}: {clause}')
        fp = fingerprint(header, ev, clause)
        fp.update({'kind': 'cert', 'cert': ev['cert'], 'clause': clause, 'raised': ev['raised']})
        ctx.report(f"{ev['cert']} ({ev['vtype']}) in {describe_cfg(header['u'])} options {header['opts']} x={ev['x'] if ev['cert'] != 'exp' else [ev['X'], '/', ev['g']]}: {clause}"
                   + (f" (raised {ev['raised']})" if ev['raised'] else ''), fp, {'trace_header': header, 'event': ev, 'spec': 'TraceOps.tla'})
    for f in files:
        lines = list(open(f))
        for line in lines[1:]:
            ev = json.loads(line)
            n += 1
            ctx.nontrivial.add(('cert', lines[0], ev['cert'], json.dumps(ev['x']), json.dumps(ev['X'])))
    ctx.extra['certificates_under_option_vectors'] = n


def run(ctx):
    run_ref_mc(ctx)
    rng, q = ctx.rng, ctx.quick
    vectors = [{'cse': c, 'graded': g, 'symbolcls': s, 'wrapper': w}
               for c in (True, False) for g in (False, True) for s in (None, 'sympy') for w in (False, True)]
    vectors.append({'pretty_blade': 'x'})
    # a wrapper that is a plain closure (does not carry the generated function's __name__)
    vectors.append({'wrapper': 'plain'})
    vectors.append({'wrapper': 'plain', 'cse': False, 'graded': True})
    cfgs = [ucfg(sig=[1, 1]), ucfg(sig=[0, 1]), ucfg(sig=[1, 1, -1]), named_ucfg('2DPGA'), ucfg(3, 0, 1)]
    if not q:
        cfgs += [ucfg(sig=s) for s in ([1, -1], [0, 0], [1, 1, 1], [0, 1, -1], [1, 1, 1, 1], [0, 1, 1, 1], [1, -1, 1, -1])] + [named_ucfg('3DPGA')]
    else:
        cfgs += [ucfg(sig=[1, 1, 1, -1])]
    groups = []
    for u in cfgs:
        d = len(u['sig']) if u['mode'] == 'sig' else u['p'] + u['q'] + u['r']
        order = None
        if u['basis']:
            import pyref
            dd, metric, spell = pyref.bit_layout(u)
            order = [sum(1 << pyref.bit_layout(u)[2][B].index(b) if False else 0 for b in []) for B in []] or None
        # grade blocks in the algebra's own canonical order
        from kdriver import make_algebra
        alg = make_algebra(u)
        order = list(alg.canon2bin.values())
        blocks = [b for b in P.grade_blocks(d, order) if len(b) <= (8 if d <= 3 else 6)]
        cases = []
        n = (3 if d <= 3 else 1) if q else (8 if d <= 3 else 3)
        small = [b for b in blocks if len(b) <= 4]
        # the SAME patterns for all operators of one arity: sibling operators (hodge/unhodge, lc/rc, ...)
        # meet on the same key patterns, and the revisit pass calls earlier ones again
        shared = {1: [[rng.choice(blocks)] for _ in range(n)], 2: [[rng.choice(blocks), rng.choice(blocks)] for _ in range(n)]}
        shared_small = {1: [[rng.choice(small)] for _ in range(n)], 2: [[rng.choice(small), rng.choice(small)] for _ in range(n)]}
        for op in OPS:
            ar = arity(op)
            for i in range(n):
                keys = (shared_small if op in ('inv', 'div', 'sw', 'proj') and d >= 3 else shared)[ar][i]
                params = [] if op not in ('grade', 'pow') else ([rng.randint(0, d)] if op == 'grade' else [rng.choice([2, 3])])
                cases.append((op, keys, params))
        rng.shuffle(cases)
        for v in vectors:
            opts = {k: x for k, x in v.items() if x not in (None,)}
            groups.append({'u': u, 'opts': opts, 'cases': cases, 'revisit': 0.5})
    # outertan = outersin / outercos evaluates an already generated division on the code-generation symbols; numeric
    # operands on complete grade blocks (valid in graded mode): bivectors in d = 4, grades (1, 2) in d = 3
    for u, gsets in ((ucfg(sig=[1, 1, 1, 1]), [[2]]), (ucfg(sig=[1, 1, -1, -1]), [[2]]), (ucfg(sig=[1, 1, -1]), [[1, 2], [2]])):
        d = len(u['sig'])
        cases = []
        for gs in gsets:
            blk = list(P.grade_block(d, gs))
            for _ in range(1 if q else 3):
                cases.append(('outertan', [{'keys': blk, 'vals': [rng.choice([1, 2, -1, 3, -2]) for _ in blk]}], []))
        for v in vectors:
            groups.append({'u': u, 'opts': {k: x for k, x in v.items() if x not in (None,)}, 'cases': cases, 'revisit': 0, 'witness': True})
    run_plan(ctx, groups, budget=90, fingerprint=fingerprint, shards_per_group=1)
    ctx.extra['option_vectors'] = len(vectors)
    certificates_under_options(ctx, [v for v in vectors if not v.get('graded')])
    return ctx.finish(
        rule='case = (configuration, option vector, operator, grade-block key patterns) on formal indeterminates; the same cases under all '
             '16 vectors of {cse} x {graded} x {symbol class} x {wrapper} plus a pretty-printing option; 31 operators; d = 2, 3, 4; '
             'non-trivial = non-zero result or required raise',
        assumptions=['the wrapper is a semantics-preserving marking decorator', 'TLC, CommunityModules, JSON encoding, harness/generic.py'])
