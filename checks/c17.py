"""C17 - the built-in polynomial arithmetic is exact rational-function arithmetic.

PolynomialModel.tla transcribes compare / __add__ (merge) / __mul__ / __neg__ / the zero tests and is
explored by TLC as a state machine over pairs of representations: the transcribed operators are
homomorphisms for the denotation (PolyRing), preserve the representation invariant WellFormed, and on
well-formed polynomials the zero tests are exact.  Spec -> code: every (p, q) state of TLC's dump is
replayed into kingdon (one implementation test per transition); code -> spec: those operations and
random walks over pools of Polynomial and RationalPolynomial objects (+, -, *, /, neg, pow of both
signs, inv, numbers on the right) are validated by TLC on denotations: result = operation on the
operands' rational functions, bool / == 0 exact, == sound, tosympy preserves the function, operands
unchanged; the stored representation is compared with the transcription as model drift."""
import os
import json
import tlaparse
from drive_poly import run_jobs


def chain_events(path, maxlimit):
    import kdriver  # noqa: F401
    from kingdon.codegen import AdditionChains, power_supply

    class E:
        def __init__(self, e):
            self.e = e

        def __mul__(self, o):
            return E(self.e + o.e)
    with open(path, 'w') as f:
        for n in range(1, maxlimit + 1):
            ev = {'id': str(n), 'limit': n, 'raised': '', 'chains': [], 'supply_int': [], 'supply_range': []}
            try:
                ev['chains'] = [[int(v), [int(x) for x in ch]] for v, ch in AdditionChains(n).minimal_chains.items()]
                ev['supply_int'] = [p.e for p in power_supply(E(1), n)]
                ev['supply_range'] = [p.e for p in power_supply(E(1), tuple(range(1, n + 1)))]
            except Exception as e:   # noqa: BLE001
                ev['raised'] = type(e).__name__
            f.write(json.dumps(ev) + '\n')


def run(ctx):
    rng, q = ctx.rng, ctx.quick
    dump = os.path.join(ctx.work, 'poly.dump')
    r = ctx.mc('mc/MC_Polynomial.tla', 'mc/MC_Polynomial_quick.cfg' if q else 'mc/MC_Polynomial_thorough.cfg',
               'PolynomialModel: homomorphism, WellFormed preservation, exact zero tests on every reachable pair', extra_args=('-dump', dump))
    if not r['ok']:
        ctx.report(f"PolynomialModel violates {r['violated']}", {'kind': 'spec', 'violated': ','.join(r['violated'])}, {'tail': r['out'][-3000:]})
    states = []
    if os.path.exists(dump):
        for st in tlaparse.parse_dump(dump):
            states.append(([list(m) for m in st['p']], [list(m) for m in st['q']]))
    ctx.extra['states_from_tlc_dump'] = len(states)
    if q and len(states) > 3000:
        states = rng.sample(states, 3000)
    tdir = os.path.join(ctx.work, 'poly')
    os.makedirs(tdir, exist_ok=True)
    jobs = []
    per = max(1, len(states) // 16 + 1)
    for i in range(0, len(states), per):
        jobs.append({'states': states[i:i + per], 'seed': ctx.seed + i, 'out': os.path.join(tdir, f's{i}.ndjson'), 'prefix': f's{i}', 'walks': 0, 'steps': 0})
    for k in range(16):
        jobs.append({'states': [], 'seed': ctx.seed + 7000 + k, 'out': os.path.join(tdir, f'w{k}.ndjson'), 'prefix': f'w{k}',
                     'walks': 6 if q else 60, 'steps': 30})
    r3 = ctx.mc('mc/MC_RatPolynomial.tla', 'mc/MC_RatPolynomial_quick.cfg' if q else 'mc/MC_RatPolynomial_thorough.cfg',
                'RationalPolynomial part of PolynomialModel (shortcuts of __add__ / __mul__, common-factor removal, inv): homomorphism, exact zero tests, well-formedness on every reachable value')
    if not r3['ok']:
        ctx.report(f"PolynomialModel (RationalPolynomial) violates {r3['violated']}", {'kind': 'spec', 'violated': ','.join(r3['violated'])}, {'tail': r3['out'][-3000:]})
    # AdditionChains / power_supply (every integer power goes through them): model checking of the loop machine,
    # and the chains the real code computes validated by TLC
    r2 = ctx.mc('mc/MC_AdditionChains.tla', 'mc/MC_AdditionChains.cfg', 'AdditionChains loop machine for limits 1..40: termination, valid / complete / prefix-closed chains, power_supply exponents')
    if not r2['ok']:
        ctx.report(f"AdditionChains violates {r2['violated']}", {'kind': 'spec', 'violated': ','.join(r2['violated'])}, {'tail': r2['out'][-2000:]})
    cf = os.path.join(tdir, 'chains.ndjson')
    chain_events(cf, 48 if q else 128)
    crej = ctx.validate('TraceChains.tla', 'TraceChains.cfg', [cf], header_lines=0)
    for f, (eid, clause) in crej:
        ctx.report(f'AdditionChains / power_supply for limit {eid}: {clause}', {'kind': 'chains', 'clause': clause}, {'limit': eid, 'spec': 'TraceChains.tla'})
    res = run_jobs(jobs)
    files = [r_['out'] for r_ in res if r_['events']]
    rej = ctx.validate('TracePolynomial.tla', 'TracePolynomial.cfg', files, header_lines=0)
    byid = {}
    for f in files:
        for line in open(f):
            ev = json.loads(line)
            byid[ev['id']] = ev
            ctx.evaluations += 1
            ctx.nontrivial.add((ev['op'], ev['cls'], json.dumps(ev['a']), json.dumps(ev['b']), ev['n']))
    some = [e for e in byid.values() if e['cls'] == 'R' and e['op'] == 'mul' and e['raised'] == ''][:1] + [e for e in byid.values() if e['op'] == 'add'][:1]
    for s in some:
        ctx.sample(s)
    # a malformed object (numerator that is not a Polynomial) cannot even be encoded: it is itself a violation
    for r_ in res:
        for m in r_['malformed']:
            ctx.report(f"{m['op']} produced / met a malformed object: {m['malformed']}", {'kind': 'poly', 'clause': 'malformed_object', 'op': m['op']}, {'event': m})
    drift = 0
    for f, (eid, clause) in rej:
        ev = byid[eid]
        if clause.startswith('drift_'):
            drift += 1
            continue
        if clause.startswith('MACHINERY'):
            from tlc import MachineryError
            raise MachineryError(f'{eid}: {clause}')
        zero_operand = ev['a'] == [[[0, 1]]] or ev['b'] == [[[0, 1]]]
        fp = {'kind': 'poly', 'clause': clause, 'op': ev['op'], 'cls': ev['cls'], 'raised': ev['raised'], 'n': ev['n']}
        ctx.report(f"{ev['cls']} {ev['op']} a={ev['a']} b={ev['b']} n={ev['n']} -> {ev['res']}: {clause}" + (f" (raised {ev['raised']})" if ev['raised'] else ''),
                   fp, {'event': ev, 'spec': 'TracePolynomial.tla'})
    ctx.extra['model_drift_events'] = drift
    return ctx.finish(
        rule='case = one operation on Polynomial / RationalPolynomial objects: every (p, q) state of the TLC exploration (<=3 terms, degree <=3, '
             'variables a < a1 < b, coefficients 0, +-1, 2, 1/2) under add/sub/mul/neg, plus random walks (pow of both signs, inv, /, numbers) over '
             'growing pools; non-trivial = distinct (operator, class, operand representations)',
        assumptions=['variables are compared as python strings; the harness uses names whose string order is their rank', 'floats are dyadic (exact)',
                     'sympy.Poly / together normalise the tosympy form', 'TLC, CommunityModules, JSON encoding'])
