"""Operators on SYMPY-symbolic operands (the symbolic call path of OperatorDict: simplification and zero filtering of
every output coefficient), with histories: u op u before u op v on the same key patterns, graded mode on / off.
`subst` events of TraceOps: the symbolic result equals the reference for ALL values (a dropped blade must be identically
zero) and every numeric evaluation of it agrees."""
import os
import patterns as P
from kdriver import ucfg, make_algebra
from drive_subst import run_jobs
from drive_ops import lookup_event
from opscheck import describe_cfg


def run_symbolic(ctx, ops, label, same_ops=()):
    rng, q = ctx.rng, ctx.quick
    tdir = os.path.join(ctx.work, 'symbolic')
    os.makedirs(tdir, exist_ok=True)
    jobs = []
    cfgs = [ucfg(sig=[1, 1, 1]), ucfg(sig=[0, 1, 1]), ucfg(2, 0, 1)] + ([] if q else [ucfg(sig=[1, 1]), ucfg(sig=[1, 1, 1, -1]), ucfg(3, 0, 1), ucfg(sig=[1, 0, -1])])
    for gi, u in enumerate(cfgs):
        d = len(u['sig']) if u['mode'] == 'sig' else u['p'] + u['q'] + u['r']
        order = list(make_algebra(u).canon2bin.values())
        blocks = [list(b) for b in P.grade_blocks(d, order) if len(b) <= 4]
        for graded in (True, False):
            cases = []
            for _ in range(3 if q else 12):
                K1, K2 = rng.choice(blocks), rng.choice(blocks)
                for op in ops:
                    unary = op in ('normsq',)
                    if op in same_ops:
                        cases.append([op + '_same', [K1], []])
                    cases.append([op, [K1] if unary else [K1, K2], []])
                    if not unary:
                        cases.append([op, [K2, K1], []])
                        cases.append([op, [K1, K1], []])
            jobs.append({'u': u, 'opts': {'graded': True} if graded else {}, 'cases': cases, 'seed': ctx.seed + 333 + gi,
                         'out': os.path.join(tdir, f's{gi}_{int(graded)}.ndjson'), 'prefix': f's{gi}.{int(graded)}', 'budget': 60})
    res = run_jobs(jobs)
    files = [r['out'] for r in res if r['events']]
    n = sum(r['events'] for r in res)
    for f, (eid, clause) in ctx.validate('TraceOps.tla', 'TraceOps.cfg', files):
        header, ev = lookup_event(f, eid)
        ctx.report(f"{ev['op']} on sympy-symbolic operands with keys {[a['keys'] for a in ev['args']]} in {describe_cfg(header['u'])} options {header['opts']}: {clause}"
                   + (f" (raised {ev['raised']})" if ev['raised'] else ''),
                   {'kind': 'subst', 'op': ev['op'], 'clause': clause, 'raised': ev['raised'], 'graded': bool(header['opts'].get('graded'))},
                   {'trace_header': header, 'event': ev, 'spec': 'TraceOps.tla'})
    ctx.extra[label] = n
