"""C08 - results do not depend on how an operand is stored.

In the specification every operator is a function of operand DENOTATIONS (blade -> coefficient);
permuting the stored keys or padding with explicit zeros keeps the denotation.  Conformance: for
every operator class, base operands are replayed in all permutations of their key tuple (<= 3
stored blades: all 6; sampled above) and in zero-padded supersets up to the full 2^d layout in
canonical and in binary order.  The indeterminates are named after the BLADE, so all variants of
one base case denote the same element; TLC validates every variant against the one reference
value, hence all variants agree with each other blade by blade."""
import itertools
import patterns as P
from kdriver import ucfg, named_ucfg
from opscheck import run_plan
from plans import arity, config_list
from refmc import run_ref_mc

BIN = ['gp', 'op', 'ip', 'lc', 'rc', 'sp', 'cp', 'acp', 'rp', 'sw', 'proj', 'add', 'sub']
UN = ['neg', 'reverse', 'involute', 'conjugate', 'hodge', 'unhodge', 'unpolarity', 'normsq', 'dual',
      'outerexp', 'outersin', 'outercos']
RAT = ['inv', 'div', 'outertan']          # rational results: small operands


def variants(rng, d, keys, order, n_perm, pads=True):
    """Storage variants of one operand: permutations and zero-padded supersets."""
    keys = list(keys)
    out = []
    perms = list(itertools.permutations(keys)) if len(keys) <= 3 else \
        [tuple(rng.sample(keys, len(keys))) for _ in range(n_perm)]
    rng.shuffle(perms)
    out += [list(p) for p in perms[:n_perm]]
    if pads:
        rest = [b for b in range(2 ** d) if b not in keys]
        for full in (list(range(2 ** d)), list(order)):                    # binary and canonical full layouts
            out.append({'keys': full, 'zero': [i for i, b in enumerate(full) if b not in keys]})
        if rest:
            extra = rng.sample(rest, rng.randint(1, min(3, len(rest))))
            mixed = keys + extra
            rng.shuffle(mixed)
            out.append({'keys': mixed, 'zero': [i for i, b in enumerate(mixed) if b not in keys]})
    return out


def run(ctx):
    run_ref_mc(ctx)
    rng, q = ctx.rng, ctx.quick
    groups = []
    for d, nbase, nvar in ((2, 6 if q else 30, 6), (3, 5 if q else 30, 5), (4, 2 if q else 12, 4)):
        order = P.canonical_order(d)
        for u in config_list(ctx, d, 2 if q else 6, 1 if q else 3):
            cases = []
            for op in BIN + UN + RAT + ['grade', 'pow']:
                ar = arity(op)
                rat = op in RAT
                if rat and d == 4 and q:
                    continue
                for _ in range(nbase if not rat else max(1, nbase // 3)):
                    maxk = 2 if rat else (4 if d <= 3 else 3)
                    if op in ('sw', 'proj') and d >= 3:
                        maxk = 3
                    bases = [P.random_key_tuple(rng, d, maxk, 1) for _ in range(ar)]
                    params = [] if op not in ('grade', 'pow') else \
                        (sorted(rng.sample(range(d + 1), rng.randint(1, d + 1))) if op == 'grade' else [rng.choice([2, 3])])
                    vs = [variants(rng, d, b, order, nvar, pads=not (rat and d >= 3) or len(b) <= 2) for b in bases]
                    # pair the variants of the operands (all combinations would be quadratic)
                    n = max(len(v) for v in vs)
                    for i in range(n):
                        keys = [v[(i * (j + 1)) % len(v)] for j, v in enumerate(vs)]
                        if rat and any(isinstance(k, dict) and len(k['keys']) > 4 for k in keys) and d >= 3:
                            continue
                        cases.append((op, keys, params))
            groups.append({'u': u, 'opts': {}, 'cases': cases})
    run_plan(ctx, groups, budget=60)
    ctx.extra['variants_note'] = 'every event of one base case carries the same blade-named indeterminates; agreement of all variants follows from agreement with the single reference value'
    return ctx.finish(
        rule='case = (configuration, operator, storage variant of each operand): permutations of the key tuple (all for <= 3 stored blades) '
             'and zero-padded supersets incl. full canonical and full binary layouts, for 30 operators (binary, unary, composite, '
             'inverse/division/outertan with rational results, outer series, grade, pow); non-trivial = non-zero result or certified raise',
        assumptions=['generated functions use only ring operations on their inputs', 'TLC, CommunityModules, JSON encoding, harness/generic.py'])
