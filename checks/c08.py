"""C08 - results do not depend on how an operand is stored.

In the specification every operator is a function of operand DENOTATIONS (blade -> coefficient);
permuting the stored keys or padding with explicit zeros keeps the denotation.  Conformance: for
every operator class, base operands are replayed in all permutations of their key tuple (<= 3
stored blades: all 6; sampled above) and in zero-padded supersets up to the full 2^d layout in
canonical and in binary order.  The indeterminates are named after the BLADE, so all variants of
one base case denote the same element; TLC validates every variant against the one reference
value, hence all variants agree with each other blade by blade."""
import itertools
import patterns as P
from kdriver import ucfg, named_ucfg
from opscheck import run_plan
from plans import arity, config_list
from refmc import run_ref_mc

BIN = ['gp', 'op', 'ip', 'lc', 'rc', 'sp', 'cp', 'acp', 'rp', 'sw', 'proj', 'add', 'sub']
UN = ['neg', 'reverse', 'involute', 'conjugate', 'hodge', 'unhodge', 'unpolarity', 'normsq', 'dual',
      'outerexp', 'outersin', 'outercos']
RAT = ['inv', 'div', 'outertan']          # rational results: small operands


def variants(rng, d, keys, order, n_perm, pads=True):
    """Storage variants of one operand: permutations and zero-padded supersets."""
    keys = list(keys)
    out = []
    perms = list(itertools.permutations(keys)) if len(keys) <= 3 else \
        [tuple(rng.sample(keys, len(keys))) for _ in range(n_perm)]
    rng.shuffle(perms)
    out += [list(p) for p in perms[:n_perm]]
    if pads:
        rest = [b for b in range(2 ** d) if b not in keys]
        for full in (list(range(2 ** d)), list(order)):                    # binary and canonical full layouts
            out.append({'keys': full, 'zero': [i for i, b in enumerate(full) if b not in keys]})
        if rest:
            extra = rng.sample(rest, rng.randint(1, min(3, len(rest))))
            mixed = keys + extra
            rng.shuffle(mixed)
            out.append({'keys': mixed, 'zero': [i for i, b in enumerate(mixed) if b not in keys]})
    return out


def registered_variants(ctx):
    """Composite programs: functions compiled by alg.register (the second compiler, taperecorder.py) applied to
    storage variants of their arguments.  TraceOps `call` events: registered = plain function = Sem(program tree)
    on the denotations, so every variant agrees with the one reference value."""
    import os
    import json
    import programs as PR
    from drive_session import run_sessions
    from drive_ops import lookup_event
    rng, q = ctx.rng, ctx.quick
    sdir = os.path.join(ctx.work, 'regsessions')
    os.makedirs(sdir, exist_ok=True)
    jobs, sessions = [], {}
    for d, u in ((2, ucfg(sig=[1, 1])), (3, ucfg(sig=[1, 1, -1])), (3, named_ucfg('2DPGA'))) + (() if q else ((3, ucfg(sig=[0, 1, 1])), (4, ucfg(sig=[1, 1, 1, -1])), (4, named_ucfg('3DPGA')))):
        order = P.canonical_order(d)
        for nargs in (1, 2):
            trees = [t for t in PR.depth1_programs(nargs, d) if not PR.ops_in(t) & {'norm', 'normalized', 'sqrt', 'outertan', 'inv', 'div'}]
            trees += [PR.random_program(rng, nargs, d, 2) for _ in range(6 if q else 30)]
            trees += [('grade', [('arg', 1)], sorted(rng.sample(range(d + 1), rng.randint(1, d))), 'method') for _ in range(3)]
            trees += [('gp', [('grade', [('arg', 1)], sorted(rng.sample(range(d + 1), 2)), 'method'), ('arg', nargs)], [], 'infix') for _ in range(3)]
            if q:
                trees = rng.sample(trees, min(len(trees), 36 if d == 2 else 24))
            for i in range(0, len(trees), 8):
                progs, hist = {}, []
                for j, t in enumerate(trees[i:i + 8]):
                    name = f'p{j}'
                    progs[name] = {'tree': t, 'nargs': nargs, 'symbolic': False, 'pyname': name}
                    bases = [P.random_key_tuple(rng, d, 4 if d <= 3 else 3, 1) for _ in range(nargs)]
                    vs = [variants(rng, d, b, order, 3) for b in bases]
                    for k in range(max(len(v) for v in vs)):
                        hist.append({'t': 'T1', 'kind': 'prog', 'op': name, 'args': [v[(k * (m + 1)) % len(v)] for m, v in enumerate(vs)], 'params': [], 'mode': 'num'})
                rng.shuffle(hist)
                sid = f'r{len(jobs)}'
                opts = {'wrapper': rng.random() < 0.3}
                jobs.append({'u': u, 'opts': opts, 'programs': progs, 'history': hist, 'out': os.path.join(sdir, sid), 'sid': sid, 'budget': 60})
                sessions[sid] = {'u': u, 'opts': opts, 'programs': {k: PR.src(v['tree']) for k, v in progs.items()}}
    res = run_sessions(jobs)
    vfiles = [r['values'] for r in res if r['n_values']]
    skipped = [s_ for r in res for s_ in r['skipped']]
    if skipped:
        ctx.extra['skipped_registered_calls'] = len(skipped)
    n = 0
    for f, (eid, clause) in ctx.validate('TraceOps.tla', 'TraceOps.cfg', vfiles):
        header, ev = lookup_event(f, eid)
        ctx.report(f"registered {ev['name']} = {ev.get('source', '')} in {sessions[header['sid']]['u']} on stored operands "
                   f"{[a['keys'] for a in ev['args']]}: {clause}" + (f" (raised {ev['raised']})" if ev['raised'] else ''),
                   {'kind': 'prog', 'clause': clause, 'raised': ev['raised']}, {'session': sessions[header['sid']], 'event': ev, 'spec': 'TraceOps.tla'})
    for f in vfiles:
        for line in list(open(f))[1:]:
            ev = json.loads(line)
            n += 1
            if ev['raised'] == '' and ev['res']['keys']:
                ctx.nontrivial.add(('reg', ev.get('source'), json.dumps([a['keys'] for a in ev['args']]), os.path.basename(f)))
    ctx.extra['registered_program_calls_on_storage_variants'] = n


def irrational_variants(ctx):
    """sqrt, x ** 0.5, norm, normalized and exp (decided by certificates, as in C19) on storage variants of their operands:
    permutations, explicit zeros for extra blades of lower AND higher grade, full canonical / binary layouts."""
    import os
    import json
    from drive_cert import run_jobs
    from drive_ops import lookup_event
    from opscheck import describe_cfg
    q = ctx.quick
    us = [ucfg(sig=s) for s in ([1, 1], [0, 1], [1, 1, 1], [1, 1, -1], [0, 1, 1], [1, 1, 1, -1], [0, 1, 1, 1])] + [named_ucfg('2DPGA')]
    if not q:
        us += [ucfg(sig=s) for s in ([1, -1], [-1, -1, -1], [1, 1, 1, 1, -1], [0, 1, 1, 1, 1])] + [named_ucfg('3DPGA')]
    tdir = os.path.join(ctx.work, 'certvariants')
    os.makedirs(tdir, exist_ok=True)
    jobs = [{'u': u, 'n': 30 if q else 200, 'seed': ctx.seed + 77 * i, 'out': os.path.join(tdir, f'v{i}.ndjson'), 'prefix': f'v{i}', 'storage_variants': True,
             'kinds': ['sqrt', 'sqrt', 'powhalf', 'norm', 'normalized', 'exp'], 'vtypes': ['float', 'int_over', 'sympy']} for i, u in enumerate(us)]
    res = run_jobs(jobs)
    files = [r['out'] for r in res if r['events']]
    n = 0
    for f, (eid, clause) in ctx.validate('TraceOps.tla', 'TraceOps.cfg', files):
        header, ev = lookup_event(f, eid)
        if clause.startswith('MACHINERY'):
            from tlc import MachineryError
            raise MachineryError(f'{eid}: {clause}')
        ctx.report(f"{ev['cert']} ({ev['vtype']}) of a storage variant in {describe_cfg(header['u'])} x={ev['x'] if ev['cert'] != 'exp' else [ev['X'], '/', ev['g']]}: {clause}"
                   + (f" (raised {ev['raised']})" if ev['raised'] else ''),
                   {'kind': 'cert', 'cert': ev['cert'], 'clause': clause, 'vtype': ev['vtype'], 'raised': ev['raised'], 'null': bool(ev.get('null'))}, {'trace_header': header, 'event': ev, 'spec': 'TraceOps.tla'})
    for f in files:
        lines = list(open(f))
        for line in lines[1:]:
            ev = json.loads(line)
            n += 1
            ctx.nontrivial.add(('cert', lines[0], ev['cert'], ev['vtype'], json.dumps(ev['x']), json.dumps(ev['X'])))
    ctx.extra['certificates_on_storage_variants'] = n


def run(ctx):
    run_ref_mc(ctx)
    rng, q = ctx.rng, ctx.quick
    groups = []
    for d, nbase, nvar in ((2, 6 if q else 30, 6), (3, 5 if q else 30, 5), (4, 2 if q else 12, 4)):
        order = P.canonical_order(d)
        for u in config_list(ctx, d, 2 if q else 6, 1 if q else 3):
            cases = []
            for op in BIN + UN + RAT + ['grade', 'pow']:
                ar = arity(op)
                rat = op in RAT
                if rat and d == 4 and q:
                    continue
                for _ in range(nbase if not rat else max(1, nbase // 3)):
                    maxk = 2 if rat else (4 if d <= 3 else 3)
                    if op in ('sw', 'proj') and d >= 3:
                        maxk = 3
                    bases = [P.random_key_tuple(rng, d, maxk, 1) for _ in range(ar)]
                    params = [] if op not in ('grade', 'pow') else \
                        (sorted(rng.sample(range(d + 1), rng.randint(1, d + 1))) if op == 'grade' else [rng.choice([2, 3])])
                    vs = [variants(rng, d, b, order, nvar, pads=not (rat and d >= 3) or len(b) <= 2) for b in bases]
                    # pair the variants of the operands (all combinations would be quadratic)
                    n = max(len(v) for v in vs)
                    for i in range(n):
                        keys = [v[(i * (j + 1)) % len(v)] for j, v in enumerate(vs)]
                        if rat and any(isinstance(k, dict) and len(k['keys']) > 4 for k in keys) and d >= 3:
                            continue
                        cases.append((op, keys, params))
            groups.append({'u': u, 'opts': {}, 'cases': cases})
    from plans import mirrored_wrapper_groups
    groups += mirrored_wrapper_groups(ctx, ['gp', 'op', 'ip', 'add', 'sub', 'sw'], n=2 if q else 8)
    run_plan(ctx, groups, budget=60)
    registered_variants(ctx)
    irrational_variants(ctx)
    ctx.extra['variants_note'] = 'every event of one base case carries the same blade-named indeterminates; agreement of all variants follows from agreement with the single reference value'
    return ctx.finish(
        rule='case = (configuration, operator, storage variant of each operand): permutations of the key tuple (all for <= 3 stored blades) '
             'and zero-padded supersets incl. full canonical and full binary layouts, for 30 operators (binary, unary, composite, '
             'inverse/division/outertan with rational results, outer series, grade, pow), and for functions compiled by alg.register (depth-1 forms of '
             'the operator table and sampled depth-2 programs) applied to the same kinds of variants; sqrt / x**0.5 / norm / normalized / exp by certificate on storage variants; non-trivial = non-zero result or certified raise',
        assumptions=['generated functions use only ring operations on their inputs', 'TLC, CommunityModules, JSON encoding, harness/generic.py'])
