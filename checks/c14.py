"""C14 - custom bases and start indices are a pure relabelling.

Model checking: AlgebraModel!RelabelIsIsomorphism -- the map Phi sending each named blade of a custom
basis to (sorting parity) x the ascending blade with the same generator names in the default-basis
algebra is an algebra isomorphism -- for every configuration TLC enumerates (all custom bases d<=2,
all signatures), together with the sign / spelling refinement of C01.
Conformance: (1) `relabel` events: every operator applied in the custom algebra and, on relabelled
operands, in the default algebra of the same signature; TLC computes Phi from the model and checks
Phi(result_custom) = result_default; (2) the same operators validated against the intrinsic reference
of the custom configuration (named blade = ordered product of its generators), including inverse
(certificates) and duals relative to the custom pseudoscalar; (3) `mix` events: operands from
algebras whose metric, start index or basis differ must be rejected."""
import os
import json
import itertools
import patterns as P
from kdriver import ucfg, named_ucfg
from opscheck import run_plan, describe_cfg
from plans import arity
from drive_relabel import run_jobs
from drive_ops import lookup_event, split_cases

OPS = ['gp', 'op', 'ip', 'lc', 'rc', 'sp', 'cp', 'acp', 'rp', 'sw', 'proj', 'add', 'sub', 'neg', 'reverse', 'involute', 'conjugate',
       'hodge', 'unhodge', 'polarity', 'unpolarity', 'dual', 'undual', 'normsq', 'inv', 'div', 'grade', 'outerexp']


def run(ctx):
    rng, q = ctx.rng, ctx.quick
    r = ctx.mc('mc/MC_Algebra.tla', 'mc/MC_Algebra_quick.cfg' if q else 'mc/MC_Algebra_thorough.cfg',
               'AlgebraModel: relabelling is an isomorphism; sign/spelling refinement; every enumerated configuration')
    if not r['ok']:
        ctx.report(f"AlgebraModel violates {r['violated']}", {'kind': 'spec', 'violated': ','.join(r['violated'])}, {'tail': r['out'][-2000:]})
    # configurations: all custom bases of d = 2, sampled d = 3..5, the named constructors
    us = []
    for st in (0, 1, 2):
        for b in P.all_custom_bases(2, st):
            us.append(ucfg(sig=rng.choice(P.all_sigs(2)), basis=b))
    us += [named_ucfg('2DPGA'), named_ucfg('3DPGA'), named_ucfg('STAP')]
    for d, n in ((3, 8 if q else 80), (4, 4 if q else 30), (5, 1 if q else 6)):
        for _ in range(n):
            b, st = P.random_custom_basis(rng, d)
            us.append(ucfg(sig=[rng.choice((1, -1, 0)) for _ in range(d)], basis=b))
    jobs, groups = [], []
    tdir = os.path.join(ctx.work, 'relabel')
    os.makedirs(tdir, exist_ok=True)
    for ui, u in enumerate(us):
        d = len(u['sig']) if u['mode'] == 'sig' else u['p'] + u['q'] + u['r']
        n = {2: 2, 3: 2, 4: 1, 5: 1}[d] if q else {2: 6, 3: 5, 4: 3, 5: 1}[d]
        cases = []
        for op in OPS:
            if d >= 5 and op in ('inv', 'div', 'sw', 'proj', 'outerexp'):
                continue
            for _ in range(n):
                ml = 2 if op in ('inv', 'div') else (3 if op in ('sw', 'proj') or d >= 4 else 4)
                keys = [P.random_key_tuple(rng, d, ml, 1) for _ in range(arity(op))]
                params = [] if op != 'grade' else [rng.randint(0, d)]
                cases.append([op, [list(k) for k in keys], params])
        jobs.append({'u': u, 'cases': cases, 'out': os.path.join(tdir, f'r{ui}.ndjson'), 'prefix': f'r{ui}', 'budget': 60})
        groups.append({'u': u, 'opts': {}, 'cases': [(c[0], [tuple(k) for k in c[1]], c[2]) for c in cases]})
    # rejection clause: pairs of distinct configurations
    pool = [ucfg(sig=[1, 1]), ucfg(sig=[1, -1]), ucfg(sig=[-1, 1]), ucfg(sig=[0, 1]), ucfg(sig=[1, 0]), ucfg(sig=[1, 1], start=0),
            ucfg(2, 0, 0), ucfg(1, 0, 1), ucfg(0, 1, 1), ucfg(sig=[1, 1], basis=['e', 'e1', 'e2', 'e21']),
            ucfg(sig=[1, 1], basis=['e', 'e2', 'e1', 'e12']), ucfg(sig=[1, 1, 1]), ucfg(sig=[1, 1, -1]), ucfg(sig=[-1, 1, 1]),
            named_ucfg('2DPGA'), ucfg(2, 0, 1), ucfg(sig=[0, 1, 1], start=1)]
    mix = [(a, b, op) for a, b in itertools.permutations(pool, 2) for op in (rng.sample(['gp', 'op', 'ip', 'add', 'sub', 'sw', 'rp', 'div'], 2 if q else 8))]
    mix += [(a, a, 'gp') for a in pool]
    for si, shard in enumerate(split_cases(mix, 16)):
        jobs.append({'mix': True, 'cases': shard, 'out': os.path.join(tdir, f'mix{si}.ndjson'), 'prefix': f'mix{si}'})
    res = run_jobs(jobs)
    files = [r_['out'] for r_ in res if r_['events']]
    skipped = [s for r_ in res for s in r_['skipped']]
    if skipped:
        ctx.notes.append(f'{len(skipped)} relabel case(s) skipped, e.g. {skipped[0]}')
    rej = ctx.validate('TraceOps.tla', 'TraceOps.cfg', files)
    for f, (eid, clause) in rej:
        header, ev = lookup_event(f, eid)
        if clause.startswith('MACHINERY'):
            from tlc import MachineryError
            raise MachineryError(f'{eid}: {clause}')
        if ev['kind'] == 'mix':
            def desc(u):
                return describe_cfg(u)
            same_pqr_basis = True
            fp = {'kind': 'mix', 'clause': clause, 'op': ev['op']}
            # fingerprint of the known mechanism: only the signature ORDER or the start index differs
            import pyref
            da, ma, _ = pyref.bit_layout(ev['ua'])
            db, mb, _ = pyref.bit_layout(ev['ub'])
            fp['same_pqr_and_basis'] = (sorted(ma) == sorted(mb)) and (ev['ua']['basis'] == ev['ub']['basis'])
            ctx.report(f"{ev['op']}(x in Algebra[{desc(ev['ua'])}], y in Algebra[{desc(ev['ub'])}]): {clause}", fp,
                       {'event': ev, 'spec': 'TraceOps.tla'})
        else:
            fp = {'kind': 'relabel', 'clause': clause, 'op': ev['op']}
            ctx.report(f"{ev['op']} on keys {[a['keys'] for a in ev['args']]} in {describe_cfg(ev['u'])}: {clause}", fp,
                       {'event': ev, 'spec': 'TraceOps.tla'})
    for f in files:
        for line in list(open(f))[1:]:
            ev = json.loads(line)
            ctx.evaluations += 1
            if ev['kind'] == 'relabel' and (ev['raised'] or ev['res']['keys']):
                ctx.nontrivial.add((json.dumps(ev['u']['basis']), ev['op'], json.dumps([a['keys'] for a in ev['args']])))
            if ev['kind'] == 'mix' and ev['raised']:
                ctx.nontrivial.add((json.dumps(ev['ua']), json.dumps(ev['ub']), ev['op']))
            if ev['kind'] == 'relabel' and len(ctx.samples) < 2 and ev['res']['keys']:
                ctx.sample({'basis': describe_cfg(ev['u']), 'op': ev['op'], 'args_custom': ev['args'], 'args_default': ev['args0'],
                            'res_custom': ev['res'], 'res_default': ev['res0']})
    # coefficient accessors and keyword constructors with permuted spellings in custom bases (ConstructModel, as in C15):
    # the same algebra instance resolves many spellings of every blade
    import drive_construct
    cdir = os.path.join(ctx.work, 'construct')
    os.makedirs(cdir, exist_ok=True)
    cus = [u for u in us if u['basis']]
    cjobs = [{'u': u, 'opts': {}, 'forms': ['kwargs', 'kwargs', 'blade', 'kv_name', 'helper'], 'n': 25 if q else 80, 'seed': ctx.seed + 7 * i,
              'out': os.path.join(cdir, f'a{i}.ndjson'), 'prefix': f'a{i}'} for i, u in enumerate(rng.sample(cus, min(len(cus), 16 if q else 80)))]
    cres = drive_construct.run_jobs(cjobs)
    cfiles = [r_['out'] for r_ in cres if r_['events']]
    crej = ctx.validate('TraceConstruct.tla', 'TraceConstruct.cfg', cfiles, header_lines=0)
    cby = {}
    for f in cfiles:
        for line in open(f):
            e_ = json.loads(line)
            cby[e_['id']] = e_
            ctx.evaluations += 1
    for f, (eid, clause) in crej:
        e_ = cby[eid]
        ctx.report(f"{e_['form']} construction / access in custom basis {describe_cfg(e_['u'])} supplied {e_['supplied']}: {clause}",
                   {'kind': 'construct', 'form': e_['form'], 'clause': clause}, {'event': e_, 'spec': 'TraceConstruct.tla'})
    # the same cases against the intrinsic reference of the custom configuration
    run_plan(ctx, groups, budget=60, subdir='intrinsic')
    return ctx.finish(
        rule='case = (custom configuration: all bases of d=2 x start index, sampled d=3..5, 2DPGA/3DPGA/STAP; operator of 28; key patterns) on formal '
             'indeterminates, evaluated in the custom algebra and (relabelled) in the default algebra; plus all ordered pairs of 17 distinct '
             'configurations x binary operators for the rejection clause; non-trivial = non-zero result / required raise',
        assumptions=['harness/pyref.py proposes the relabelled operands, TLC verifies them (a wrong proposal is a machinery failure)',
                     'asmatrix under custom bases is decided by C18', 'TLC, CommunityModules, JSON encoding, harness/generic.py'])
