"""C12 - symbolic evaluation commutes with numeric evaluation.

Reference: MultivectorRef over the field of fractions of Z[symbols]; PolyRing!REvalQ evaluates a
rational function at a rational point.  Every event carries symbolic operands (any mix of symbols
and numbers), the symbolic result and the numeric multivectors obtained by calling the result
positionally (free symbols in NAME order -- the driver binds by that documented rule, with names
chosen so that name order differs from creation order), by keyword, by sympy substitution and by
applying the operator to numeric operands.  TLC checks (1) the symbolic result equals the reference
for all values, absent blade = 0, so the zero filter may only drop identically-zero coefficients,
(2) every numeric multivector equals the symbolic result evaluated at the assignment."""
import os
import json
import patterns as P
from kdriver import ucfg, named_ucfg
from plans import arity, config_list
from refmc import run_ref_mc
from drive_subst import run_jobs
from drive_ops import lookup_event, split_cases
from opscheck import describe_cfg

OPS = ['gp', 'op', 'ip', 'lc', 'rc', 'sp', 'cp', 'acp', 'rp', 'sw', 'proj', 'add', 'sub', 'neg', 'reverse', 'involute',
       'conjugate', 'hodge', 'unhodge', 'unpolarity', 'normsq', 'outerexp', 'outercos', 'inv', 'div', 'grade', 'pow', 'dual',
       'id', 'id']      # id: the constructed multivector itself is called / substituted


def run(ctx):
    run_ref_mc(ctx)
    rng, q = ctx.rng, ctx.quick
    jobs = []
    tdir = os.path.join(ctx.work, 'subst')
    os.makedirs(tdir, exist_ok=True)
    plan = []
    kts2 = list(P.all_key_tuples(2))
    for d, us, n in ((1, [ucfg(sig=s) for s in P.all_sigs(1)], 1),
                     (2, [ucfg(sig=s) for s in P.all_sigs(2)] + [ucfg(1, 0, 1)], 6 if q else 40),
                     (3, None, 4 if q else 30), (4, None, 1 if q else 8)):
        us = us or config_list(ctx, d, 3 if q else 8, 1 if q else 4)
        for u in us:
            cases = []
            for op in OPS:
                ar = arity(op)
                for _ in range(n):
                    if d <= 2:
                        keys = [rng.choice(kts2 if d == 2 else list(P.all_key_tuples(1))) for _ in range(ar)]
                    else:
                        keys = [P.random_key_tuple(rng, d, 3 if op in ('inv', 'div', 'sw', 'proj') else 4, 1) for _ in range(ar)]
                    if op in ('inv', 'div') and sum(len(k) for k in keys) > 4:
                        keys = [k[:2] for k in keys]
                    params = [] if op not in ('grade', 'pow') else ([rng.randint(0, d)] if op == 'grade' else [rng.choice([2, 3])])
                    cases.append([op, [list(k) for k in keys], params])
            plan.append((u, cases))
    for gi, (u, cases) in enumerate(plan):
        for si, shard in enumerate(split_cases(cases, 2 if len(cases) > 60 else 1)):
            jobs.append({'u': u, 'opts': {} if gi % 5 else {'cse': False}, 'cases': shard, 'seed': ctx.seed + 17 * gi + si, 'n_irr': 6 if q else 30, 'n_sib': 3 if q else 12, 'n_chain': 2 if q else 6,
                         'out': os.path.join(tdir, f'g{gi}_{si}.ndjson'), 'prefix': f'g{gi}.{si}'})
    # graded mode x symbolic operands x history: u*u (coefficients that cancel by VALUE) before u*v on the same complete-grade
    # key patterns, composite operators in between
    for gi, u in enumerate([ucfg(sig=[1, 1, 1]), ucfg(sig=[0, 1, 1]), ucfg(2, 0, 1)] + ([] if q else [ucfg(sig=[1, 1]), ucfg(sig=[1, 1, 1, -1]), ucfg(3, 0, 1)])):
        d_ = len(u['sig']) if u['mode'] == 'sig' else u['p'] + u['q'] + u['r']
        from kdriver import make_algebra as _mk
        order_ = list(_mk(u).canon2bin.values())
        blocks = [list(b_) for b_ in P.grade_blocks(d_, order_) if len(b_) <= 5]
        cases = []
        for _ in range(4 if q else 16):
            K1, K2 = rng.choice(blocks), rng.choice(blocks)
            cases += [['gp_same', [K1], []], ['gp', [K1, K1], []], ['sw', [K2, K1], []], ['gp', [K2, K1], []], ['op_same', [K1], []], ['op', [K1, K1], []],
                      ['gp', [K1, K2], []]]
        jobs.append({'u': u, 'opts': {'graded': True}, 'cases': cases, 'seed': ctx.seed + 901 + gi, 'out': os.path.join(tdir, f'gr{gi}.ndjson'), 'prefix': f'gr{gi}'})
    res = run_jobs(jobs)
    files = [r['out'] for r in res if r['events']]
    skipped = [s for r in res for s in r['skipped']]
    if skipped:
        ctx.notes.append(f'{len(skipped)} case(s) skipped (time budget / non-rational / too large), e.g. {skipped[0]}')
        ctx.extra['skipped_cases'] = len(skipped)
    rej = ctx.validate('TraceOps.tla', 'TraceOps.cfg', files)
    nev = 0
    for f in files:
        lines = list(open(f))
        header = json.loads(lines[0])
        for line in lines[1:]:
            ev = json.loads(line)
            ctx.evaluations += 1
            nev += len(ev['evals'])
            if ev['res']['keys'] and ev['evals']:
                ctx.nontrivial.add((json.dumps(header['u']), ev['op'], json.dumps([a['keys'] for a in ev['args']]), ev['id']))
            if len(ctx.samples) < 3 and len(ev['evals']) == 4:
                ctx.sample({'cfg': describe_cfg(header['u']), 'op': ev['op'], 'args': ev['args'], 'symbol_ids': ev['names'], 'sigma': ev['sigma'],
                            'symbolic_result': ev['res'], 'evaluations': [(x['how'], x['res']) for x in ev['evals']]})
    ctx.extra['numeric_evaluations_compared'] = nev
    for f, (eid, clause) in rej:
        header, ev = lookup_event(f, eid)
        fp = {'kind': 'subst', 'op': ev['op'], 'clause': clause, 'raised': ev['raised']}
        ctx.report(f"{ev['op']} on keys {[a['keys'] for a in ev['args']]} params {ev['params']} in {describe_cfg(header['u'])}, symbols {ev['names']}, "
                   f"sigma {ev['sigma']}: {clause}", fp, {'trace_header': header, 'event': ev, 'spec': 'TraceOps.tla'})
    return ctx.finish(
        rule='case = (configuration, operator, key patterns, partition of the coefficients into symbols / numbers, symbol names, rational '
             'assignment); all signatures d<=2, sampled d=3,4; 28 operators; four numeric evaluations per case (positional call, keyword call, '
             'sympy subs, numeric operator); non-trivial = non-empty symbolic result with at least one numeric evaluation compared',
        assumptions=['assignments avoid poles (cases where the substituted denominator vanishes are accepted)',
                     'sympy expressions are converted to polynomials by sympy.Poly / together (harness/drive_session.sympy_to_G)',
                     'TLC, CommunityModules, JSON encoding'])
