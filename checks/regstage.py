"""Functions compiled by alg.register (the second compiler, taperecorder.py) as one more way of invoking operators:
TraceOps `call` events -- registered = plain python function = Sem(program tree) on the operands' denotations."""
import os
import json
import patterns as P
import programs as PR
from drive_session import run_sessions
from drive_ops import lookup_event


def run_registered(ctx, plan, subdir, label):
    """plan: list of (u, nargs, trees, argspecs_fn) -- argspecs_fn(tree) yields lists of operand specs (key lists or
    {'keys', 'zero'} dicts) for the program's arguments."""
    rng = ctx.rng
    sdir = os.path.join(ctx.work, subdir)
    os.makedirs(sdir, exist_ok=True)
    jobs, sessions = [], {}
    for u, nargs, trees, argspecs in plan:
        for i in range(0, len(trees), 8):
            progs, hist = {}, []
            for j, t in enumerate(trees[i:i + 8]):
                name = f'p{j}'
                progs[name] = {'tree': t, 'nargs': nargs, 'symbolic': False, 'pyname': name}
                for specs in argspecs(t):
                    hist.append({'t': 'T1', 'kind': 'prog', 'op': name, 'args': specs, 'params': [], 'mode': 'num'})
            rng.shuffle(hist)
            sid = f'{subdir}{len(jobs)}'
            opts = {'wrapper': rng.random() < 0.3}
            jobs.append({'u': u, 'opts': opts, 'programs': progs, 'history': hist, 'out': os.path.join(sdir, sid), 'sid': sid, 'budget': 60})
            sessions[sid] = {'u': u, 'opts': opts, 'programs': {k: PR.src(v['tree']) for k, v in progs.items()}}
    res = run_sessions(jobs)
    vfiles = [r['values'] for r in res if r['n_values']]
    skipped = [s_ for r in res for s_ in r['skipped']]
    if skipped:
        ctx.extra[f'skipped_{label}'] = len(skipped)
    for f, (eid, clause) in ctx.validate('TraceOps.tla', 'TraceOps.cfg', vfiles):
        header, ev = lookup_event(f, eid)
        ctx.report(f"registered {ev['name']} = {ev.get('source', '')} in {sessions[header['sid']]['u']} on stored operands "
                   f"{[a['keys'] for a in ev['args']]}: {clause}" + (f" (raised {ev['raised']})" if ev['raised'] else ''),
                   {'kind': 'prog', 'clause': clause, 'raised': ev['raised']}, {'session': sessions[header['sid']], 'event': ev, 'spec': 'TraceOps.tla'})
    n = 0
    for f in vfiles:
        for line in list(open(f))[1:]:
            ev = json.loads(line)
            n += 1
            if ev['raised'] == '' and ev['res']['keys']:
                ctx.nontrivial.add(('reg', ev.get('source'), json.dumps([a['keys'] for a in ev['args']]), os.path.basename(f)))
    ctx.extra[label] = n
    return n
