"""C02 - geometric product of sparse multivectors equals the bilinear extension.

Model checking: the reference layer (Clifford relations, word rewriting, lemmas) on every
configuration of the bounded space.  Conformance: every case (configuration, ordered key-tuple
pair) compiles its own function in kingdon; it is run on formal indeterminates and TLC compares,
per output blade, the recorded polynomial with  sum sign*a_i*b_j  of the reference semantics
(absent blade = 0), so omitted / duplicated / misattributed terms and missing blades are caught
for all coefficient values at once."""
import itertools
import patterns as P
from kdriver import ucfg, named_ucfg
from opscheck import run_plan
from refmc import run_ref_mc


def pairs_of(kts_a, kts_b):
    return [('gp', [a, b], []) for a in kts_a for b in kts_b]


def plan(ctx):
    rng, q = ctx.rng, ctx.quick
    groups = []
    # d = 0, 1: every ordered key-tuple pair, every signature
    groups.append({'u': ucfg(sig=[]), 'cases': pairs_of(list(P.all_key_tuples(0)), list(P.all_key_tuples(0)))})
    for s in P.all_sigs(1):
        kt = list(P.all_key_tuples(1))
        groups.append({'u': ucfg(sig=s), 'cases': pairs_of(kt, kt)})
    # d = 2: every signature; quick = all 16x16 canonical subset pairs + sampled storage orders,
    # thorough = all 65 x 65 ordered key-tuple pairs
    kt2 = list(P.all_key_tuples(2))
    sub2 = list(P.all_key_subsets_canonical(2))
    for i, s in enumerate(P.all_sigs(2)):
        if q:
            cases = pairs_of(sub2, sub2) + [('gp', [rng.choice(kt2), rng.choice(kt2)], []) for _ in range(220)]
        else:
            cases = pairs_of(kt2, kt2)
        groups.append({'u': ucfg(sig=s), 'cases': cases})
        # the cse=False path builds the function with func_builder instead of lambdify
        if i % 3 == 0 or not q:
            groups.append({'u': ucfg(sig=s), 'opts': {'cse': False},
                           'cases': [('gp', [rng.choice(kt2), rng.choice(kt2)], []) for _ in range(120 if q else 600)]})
    # the (p,q,r) constructor path and start indices
    for (p_, q_, r_) in [(2, 0, 0), (1, 1, 0), (1, 0, 1), (0, 1, 1), (0, 0, 2)]:
        groups.append({'u': ucfg(p_, q_, r_, start=rng.choice([None, 0, 1, 2])),
                       'cases': [('gp', [rng.choice(kt2), rng.choice(kt2)], []) for _ in range(60)]})
    # every custom basis of d = 2 (exhaustive: generator order x spelling x within-grade order)
    for st in (0, 1):
        for b in P.all_custom_bases(2, st):
            sig = rng.choice(P.all_sigs(2))
            groups.append({'u': ucfg(sig=sig, basis=b),
                           'cases': [('gp', [rng.choice(kt2), rng.choice(kt2)], []) for _ in range(25 if q else 150)]})
    # d = 3: thorough = all 256 x 256 canonical subset pairs for two signatures
    sub3 = list(P.all_key_subsets_canonical(3))
    if not q:
        for s in ([1, 1, 1], [0, 1, -1]):
            groups.append({'u': ucfg(sig=s), 'cases': pairs_of(sub3, sub3)})
    n3 = 120 if q else 1500
    for s in (P.sig_classes(3) if not q else [[1, 1, 1], [1, -1, 0], [0, 1, 1], [-1, -1, -1], [0, 0, 1]]):
        kts = P.sampled_key_tuples(rng, 3, 2 * n3)
        groups.append({'u': ucfg(sig=s), 'cases': [('gp', [kts[2 * i], kts[2 * i + 1]], []) for i in range(n3)]})
    kts = P.sampled_key_tuples(rng, 3, 2 * n3)
    groups.append({'u': named_ucfg('2DPGA'), 'cases': [('gp', [kts[2 * i], kts[2 * i + 1]], []) for i in range(n3)]})
    groups.append({'u': ucfg(sig=[1, 1, -1]), 'opts': {'cse': False},
                   'cases': [('gp', [kts[2 * i], kts[2 * i + 1]], []) for i in range(n3 // 2)]})
    for _ in range(4 if q else 30):
        b, st = P.random_custom_basis(rng, 3)
        kts = P.sampled_key_tuples(rng, 3, 80)
        groups.append({'u': ucfg(sig=rng.choice(P.all_sigs(3)), basis=b),
                       'cases': [('gp', [kts[2 * i], kts[2 * i + 1]], []) for i in range(40)]})
    # d = 4, 5: sampled sparse / permuted / grade-block patterns (<= 8 stored blades)
    n4 = 50 if q else 600
    for s in ([[1, 1, 1, -1], [0, 1, 1, 1]] if q else P.sig_classes(4)):
        kts = P.sampled_key_tuples(rng, 4, 2 * n4, max_len=8)
        groups.append({'u': ucfg(sig=s), 'cases': [('gp', [kts[2 * i], kts[2 * i + 1]], []) for i in range(n4)]})
    kts = P.sampled_key_tuples(rng, 4, 2 * n4, max_len=8)
    groups.append({'u': named_ucfg('3DPGA'), 'cases': [('gp', [kts[2 * i], kts[2 * i + 1]], []) for i in range(n4)]})
    b, st = P.random_custom_basis(rng, 4)
    groups.append({'u': ucfg(sig=rng.choice(P.all_sigs(4)), basis=b), 'cases': [('gp', [kts[2 * i], kts[2 * i + 1]], []) for i in range(n4 // 2)]})
    n5 = 20 if q else 250
    for u in [ucfg(sig=[1, 1, 1, 1, -1]), named_ucfg('STAP')] + ([] if q else [ucfg(sig=[0, 1, -1, 1, 0]), ucfg(5, 0, 0)]):
        kts = P.sampled_key_tuples(rng, 5, 2 * n5, max_len=6)
        groups.append({'u': u, 'cases': [('gp', [kts[2 * i], kts[2 * i + 1]], []) for i in range(n5)]})
    # d = 6 (eager tables), d = 7, 8 (lazy tables)
    for d, n, ml in ((6, 10 if q else 100, 5), (7, 8 if q else 60, 4), (8, 5 if q else 30, 4)):
        kts = [P.random_key_tuple(rng, d, ml) for _ in range(2 * n)]
        sig = [rng.choice((1, -1, 0)) for _ in range(d)]
        if len(set(sig)) == 1:
            sig[rng.randrange(d)] = 1 if sig[0] != 1 else -1
        # the same cases first run (unrecorded) on an algebra with the same (p, q, r) and another ORDER of the signature:
        # tables shared between algebras of one process must not be keyed by (p, q, r) alone
        other = sig[:]
        while other == sig:
            rng.shuffle(other)
        groups.append({'u': ucfg(sig=sig), 'pre_u': ucfg(sig=other),
                       'cases': [('gp', [kts[2 * i], kts[2 * i + 1]], []) for i in range(n)]})
    return groups


def run(ctx):
    run_ref_mc(ctx)
    from plans import mirrored_wrapper_groups
    run_plan(ctx, plan(ctx) + mirrored_wrapper_groups(ctx, ['gp']))
    # sympy symbols as coefficients (symbolic call path: simplification + zero filter), u*u before u*v, graded on / off
    from symstage import run_symbolic
    run_symbolic(ctx, ['gp'], 'symbolic_gp_events', same_ops=('gp',))
    return ctx.finish(
        rule='case = (configuration, algebra options, ordered key tuple of a, ordered key tuple of b); each compiles its own '
             'function, which is run on formal indeterminates; distinct by construction (deduplicated); non-trivial = the '
             'recorded product has at least one non-zero coefficient polynomial',
        assumptions=['generated functions use only ring operations on their inputs (generic coefficients decide all values)',
                     'TLC, CommunityModules, the JSON encoding and harness/generic.py are trusted'],
        exhaustive=False)
