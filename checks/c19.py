"""C19 - exp, outer exponentials, sqrt, powers and norms obey their identities.

Exact clauses, decided exactly by TLC on formal indeterminates (spec/TraceOps.tla `op` events):
outerexp/outersin/outercos = d! sum x^(^k)/k! over the stated k (integer scaling), outertan * outercos =
outersin, integer powers = repeated products (negative ones: inverse of the power).
Irrational clauses, decided as CERTIFICATES on their stated domains (`cert` events): sqrt(x) and x**0.5
for squares x = s*s of Study numbers with positive scalar part -- TLC checks r*r = x exactly on the
nearest small-denominator fractions of the float result; norm(x)^2 = normsq(x) and normalized(x) for
operands whose norm is rational; exp(x) for simple x on a grid (1/g)Z with |x| <= 1/2: TLC evaluates
N! g^N sum_{k<=N} x^k/k! in integer arithmetic and compares with the logged value within the remainder
bound, for positive, zero and negative squares, python floats, Fractions, complex numbers (Gaussian-integer instance of
the reference), numpy arrays and sympy."""
import os
import json
import patterns as P
from kdriver import ucfg, named_ucfg
from opscheck import run_plan, describe_cfg
from plans import op_plan, blade_pair_plan
from refmc import run_ref_mc
from drive_cert import run_jobs
from drive_ops import lookup_event


def pow_params(rng, d, op):
    return [rng.choice([0, 1, 2, 3, 4, -1, -2])]


def run(ctx):
    run_ref_mc(ctx)
    rng, q = ctx.rng, ctx.quick
    groups = op_plan(ctx, ['outerexp', 'outersin', 'outercos'], dims=(1, 2, 3, 4, 5, 6), max_len={3: 4, 4: 4, 5: 3, 6: 3},
                     per_cfg=({2: 10, 3: 10, 4: 6, 5: 3, 6: 2} if q else {2: 60, 3: 80, 4: 40, 5: 15, 6: 8}))
    groups += op_plan(ctx, ['outertan'], dims=(1, 2, 3, 4), max_len={3: 3, 4: 2}, exhaustive2=False,
                      per_cfg=({2: 8, 3: 5, 4: 2} if q else {2: 40, 3: 30, 4: 10}))
    groups += op_plan(ctx, ['pow'], params=pow_params, dims=(0, 1, 2, 3, 4), max_len={3: 3, 4: 2}, exhaustive2=False,
                      per_cfg=({2: 20, 3: 10, 4: 4} if q else {2: 120, 3: 60, 4: 20}))
    # larger exponents (a square-and-multiply scheme goes wrong only from |n| = 5 on): generic operands of one or two blades
    # for positive n, small integer operands for negative n (certificate: x**-n * x**n = 1)
    for u, d in ((ucfg(sig=[1, 1]), 2), (ucfg(sig=[1, -1]), 2), (ucfg(sig=[1, 1, 1]), 3), (named_ucfg('2DPGA'), 3), (ucfg(sig=[1, 1, 1, -1]), 4)):
        cases = []
        for n in ((5, 6, 7, 9, 11, 12) if q else (5, 6, 7, 8, 9, 10, 11, 12, 13, 14)):
            for _ in range(1 if q else 3):
                cases.append(('pow', [list(P.random_key_tuple(rng, d, 2, 1))], [n]))
        for n in ((-3, -5, -6, -9) if q else (-3, -4, -5, -6, -7, -9, -10, -11)):
            for _ in range(1 if q else 3):
                k = list(P.random_key_tuple(rng, d, 2, 1))
                cases.append(('pow', [{'keys': k, 'vals': [rng.choice([1, -1, 2]) for _ in k]}], [n]))
        groups.append({'u': u, 'opts': {}, 'cases': cases, 'witness': True, 'revisit': 0})
    # the algebraic skeleton of exp with FORMAL functions (public parameters cosh / sinhc / sqrt): exact on formal
    # indeterminates; single blades, sums of blades (simple or not: a non-scalar square must raise NotImplementedError)
    for d, us in ((1, [ucfg(sig=s_) for s_ in P.all_sigs(1)]), (2, [ucfg(sig=s_) for s_ in P.all_sigs(2)]), (3, None), (4, None), (5, None)):
        from plans import config_list as _cl
        for u in (us or _cl(ctx, d, 2 if q else 6, 1 if d <= 4 else 0)):
            cases = [('expf', [[b_]], []) for b_ in (range(2 ** d) if d <= 3 else rng.sample(range(2 ** d), 8))]
            for _ in range(6 if q else 40):
                cases.append(('expf', [list(P.random_key_tuple(rng, d, 3, 1))], []))
            for g in range(1, d + 1):
                blk = list(P.grade_block(d, [g]))
                cases.append(('expf', [blk if len(blk) <= 4 else rng.sample(blk, 3)], []))
            groups.append({'u': u, 'opts': {}, 'cases': cases, 'revisit': 0})
    # grade blocks (single-grade operands are the documented domain of the outer series)
    from plans import config_list
    for d in (3, 4, 5, 6):
        for u in config_list(ctx, d, 1 if q else 3, 1 if d <= 4 else 0):
            cases = []
            for g in range(0, d + 1):
                blk = P.grade_block(d, [g])
                if len(blk) > 6:
                    blk = tuple(rng.sample(blk, 5))
                for op in ('outerexp', 'outersin', 'outercos'):
                    cases.append((op, [blk], []))
            groups.append({'u': u, 'opts': {}, 'cases': cases})
    # outer functions after ANOTHER metric of the same dimension was used in the same process (outertan contains a
    # metric-dependent inverse: nothing generated for one algebra may be reused for another)
    for usig, other in (([1, 1, 1, -1], [1, 1, 1, 1]), ([1, 1, -1, -1], [1, 1, 1, -1]), ([0, 1, 1, 1], [1, 1, 1, 1]), ([1, 1, -1], [1, 1, 1])):
        d_ = len(usig)
        cs = []
        for _ in range(2 if q else 8):
            k_ = sorted(rng.sample([b_ for b_ in range(2 ** d_) if bin(b_).count('1') == 2], 2))
            for op in ('outertan', 'outercos', 'outerexp'):
                cs.append((op, [{'keys': k_, 'vals': [rng.choice([1, 2, -1, 3]) for _ in k_]}], []))
        groups.append({'u': ucfg(sig=usig), 'opts': {}, 'cases': cs, 'pre_u': ucfg(sig=other), 'witness': True, 'revisit': 0})
    run_plan(ctx, groups, budget=60)
    # certificates
    us = [ucfg(sig=s) for s in ([1, 1], [1, -1], [0, 1], [1, 1, 1], [1, 1, -1], [0, 1, 1], [-1, -1, -1], [1, 1, 1, -1], [0, 1, 1, 1])]
    us += [named_ucfg('2DPGA'), ucfg(3, 0, 1), ucfg(sig=[1, 1, 1, 1, -1])]
    us += [ucfg(2, 0, 2), ucfg(sig=[1, 1, 0]), ucfg(1, 0, 2), ucfg(sig=[1, 0, -1, 0])]      # null generators that are NOT first (r >= 2 / hand-ordered)
    if not q:
        us += [ucfg(sig=s) for s in ([1], [-1], [0], [-1, -1], [0, 0, 1], [1, -1, 1, -1], [1] * 6, [0, 1, 1, 1, 1])] + [named_ucfg('3DPGA')]
    tdir = os.path.join(ctx.work, 'cert')
    os.makedirs(tdir, exist_ok=True)
    jobs = [{'u': u, 'n': 40 if q else 200, 'seed': ctx.seed + 31 * i, 'out': os.path.join(tdir, f'c{i}.ndjson'), 'prefix': f'c{i}'} for i, u in enumerate(us)]
    res = run_jobs(jobs)
    files = [r['out'] for r in res if r['events']]
    skipped = [s for r in res for s in r['skipped']]
    if skipped:
        ctx.notes.append(f'{len(skipped)} certificate case(s) skipped (not encodable), e.g. {skipped[0]}')
    rej = ctx.validate('TraceOps.tla', 'TraceOps.cfg', files)
    kinds = {}
    for f in files:
        lines = list(open(f))
        header = json.loads(lines[0])
        for line in lines[1:]:
            ev = json.loads(line)
            ctx.evaluations += 1
            kinds[ev['cert'] + ':' + ev['vtype']] = kinds.get(ev['cert'] + ':' + ev['vtype'], 0) + 1
            ctx.nontrivial.add((json.dumps(header['u']), ev['cert'], ev['vtype'], json.dumps(ev['x']), json.dumps(ev['X'])))
            if ev['cert'] == 'exp' and ev['raised'] == '' and sum(1 for s in ctx.samples if isinstance(s, dict) and s.get('cert') == 'exp') < 1:
                ctx.sample({'cert': 'exp', 'cfg': describe_cfg(header['u']), 'X_over_g': [ev['X'], ev['g']], 'N': ev['N'], 'logged_times_S': ev['F'], 'tol': ev['tol'], 'vtype': ev['vtype']})
            if ev['cert'] == 'sqrt' and ev['raised'] == '' and sum(1 for s in ctx.samples if isinstance(s, dict) and s.get('cert') == 'sqrt') < 1:
                ctx.sample({'cert': 'sqrt', 'cfg': describe_cfg(header['u']), 'x': ev['x'], 'r': ev['r']})
    ctx.extra['certificates_by_kind_and_value_type'] = kinds
    for f, (eid, clause) in rej:
        header, ev = lookup_event(f, eid)
        if clause.startswith('MACHINERY'):
            from tlc import MachineryError
            raise MachineryError(f'{eid}: {clause}')
        fp = {'kind': 'cert', 'cert': ev['cert'], 'clause': clause, 'vtype': ev['vtype'], 'raised': ev['raised'], 'numpy': ev['vtype'].startswith('numpy'), 'sq': ev.get('sq', '')}
        ctx.report(f"{ev['cert']} ({ev['vtype']}) in {describe_cfg(header['u'])} x={ev['x'] if ev['cert'] != 'exp' else [ev['X'], '/', ev['g']]}: {clause}"
                   + (f" (raised {ev['raised']})" if ev['raised'] else ''), fp, {'trace_header': header, 'event': ev, 'spec': 'TraceOps.tla'})
    return ctx.finish(
        rule='case = (configuration, operator / certificate kind, operand, value type); outer series and integer powers on formal indeterminates '
             '(all key tuples d<=2, sampled + all single-grade blocks d=3..6); certificates: squares of Study numbers (scalar + simple element), rational-norm '
             'operands, simple elements on the grid (1/g)Z with positive / zero / negative square for float, Fraction, numpy, sympy; non-trivial = distinct case',
        assumptions=['float results are compared through the nearest fraction with denominator <= 1e5 (relative distance <= 1e-7), exp through fixed point with the stated remainder bound',
                     'complex coefficients of exp are checked over the Gaussian integers (an instance of the ring-parameterised reference); sqrt / norm are not exercised with complex values', 'harness/pyref.py only selects operands of the stated domain',
                     'TLC, CommunityModules, JSON encoding, harness/generic.py'])
