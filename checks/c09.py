"""C09 - results depend only on the operands, never on earlier operations.

Model checking (spec/Kingdon.tla): the generate/compile/cache/dispatch state machine with one
action per critical section; DispatchExact, CacheMonotone, FailAtomic, GenOnce, PublishedBeforeCached
over ALL histories of a bounded call alphabet and all interleavings of two threads; liveness
(every call returns).  The model with names that encode key SETS (the pinned code) violates
DispatchExact -- that counterexample is the defect F1 which was repaired in /repo (see
known_findings.json); the configurations checked here describe the repaired naming.

Conformance.  spec -> code: TLC simulation behaviours are replayed call by call on one long-lived,
externally instrumented Algebra (with and without wrapper); code -> spec: every call's value is
validated by TLC against the reference semantics, against the same call on a FRESH algebra and
against snapshots of all operands / earlier results (spec/TraceOps.tla `call` events), and the
recorded cache / name-space / dispatch events are replayed through the model state with
DispatchExact, GenOnce, CacheMonotone, FailAtomic evaluated at every step (spec/TraceKingdon.tla).
Thread interleavings chosen by TLC are forced on the real object by a cooperative scheduler."""
import os
import glob
import json
import random
import tlaparse
import patterns as P
import programs as PR
from kdriver import ucfg, named_ucfg
from drive_session import run_sessions
from drive_ops import lookup_event

KEYS = {'K12': (1, 2), 'K21': (2, 1), 'K0': (0,), 'KF': (0, 1, 2, 3), 'K03': (0, 3)}
MODEL_PROGRAMS = {
    'f': {'tree': ('gp', [('arg', 1), ('arg', 2)], [], 'infix'), 'nargs': 2, 'symbolic': False, 'pyname': 'f'},
    'g': {'tree': ('gp', [('reverse', [('arg', 1)], [], 'infix'), ('arg', 1)], [], 'infix'), 'nargs': 1, 'symbolic': False, 'pyname': 'g'},
    'f2': {'tree': ('op', [('arg', 1), ('arg', 2)], [], 'infix'), 'nargs': 2, 'symbolic': False, 'pyname': 'f'},
    'symf': {'tree': ('gp', [('arg', 1), ('arg', 2)], [], 'infix'), 'nargs': 2, 'symbolic': True, 'pyname': 'symf'},
}


def model_call_to_real(op, pat, mode):
    """A call of the model alphabet -> a call of the session driver (2-D algebra, e0 null)."""
    args = [tuple(k) for k in pat]
    if op == 'div':
        args = [args[0], (1,)]            # divide by the null vector e0: generation raises
    kind = 'prog' if op in MODEL_PROGRAMS else 'op'
    return {'t': 'T1', 'kind': kind, 'op': op, 'args': args, 'params': [], 'mode': mode}


def behaviours_from_simulation(ctx, cfg, n, depth, tag):
    simdir = os.path.join(ctx.work, f'sim_{tag}')
    os.makedirs(simdir, exist_ok=True)
    r = ctx.mc('mc/MC_Kingdon.tla', cfg, f'simulation of {n} behaviours (depth {depth}) for replay', workers=1,
               extra_args=('-simulate', f'file={simdir}/tr,num={n}', '-depth', str(depth), '-seed', str(ctx.seed)))
    out = []
    for f in sorted(glob.glob(simdir + '/tr_*')):
        b = tlaparse.parse_simulation_file(f)
        calls, outcome, proto = [], [], []
        for label, st in b:
            ev = st['ev']
            if ev['type'] in ('Lookup', 'PubNames', 'PubCache'):
                proto.append([ev['type'], ev['op'], [list(k) for k in ev['pat']], bool(ev['hit']) if ev['type'] == 'Lookup' else False])
            if ev['type'] == 'Begin':
                mode = st['stack'][ev['t']][0]['mode']
                calls.append((ev['op'], [list(k) for k in ev['pat']], mode))
                outcome.append({'raised': False, 'generated': 0})
            elif ev['type'] == 'GenFail' and outcome:
                outcome[-1]['raised'] = True
            elif ev['type'] == 'PubCache' and outcome:
                outcome[-1]['generated'] += 1
        if calls:
            out.append((calls, outcome, proto))
    return out


FAMILIES = [['hodge', 'unhodge', 'dual', 'undual'], ['polarity', 'unpolarity'], ['reverse', 'involute', 'conjugate', 'neg'],
            ['lc', 'rc', 'ip', 'sp'], ['cp', 'acp', 'gp'], ['add', 'sub'], ['op', 'rp'], ['sw', 'proj'], ['normsq', 'inv'],
            ['outerexp', 'outersin', 'outercos']]
BINARY = {'gp', 'op', 'ip', 'lc', 'rc', 'sp', 'cp', 'acp', 'rp', 'sw', 'proj', 'add', 'sub', 'div'}


def random_history(rng, d, n, programs, with_sym=True, with_fail=True, fams=None):
    """Beyond the model alphabet: operators x key patterns and their permutations x direct / registered /
    symbolic / raising calls.  Histories are built to COLLIDE: a few key patterns and their permutations,
    families of sibling operators used on the same pattern, and every call repeated later in the history
    (a wrong cache entry or a rebound name only shows when an earlier call is made again)."""
    base = [P.random_key_tuple(rng, d, 3, 1) for _ in range(2)]
    pool = []
    for b in base:
        pool.append(tuple(b))
        pool.append(tuple(rng.sample(list(b), len(b))))
    pool = list(dict.fromkeys(pool))
    fams = fams or rng.sample(FAMILIES, 3)
    calls = []
    for fam in fams:
        pats = rng.sample(pool, min(2, len(pool)))
        for op in fam:
            for p in pats[:1 + (rng.random() < 0.5)]:
                args = [p, rng.choice(pool)] if op in BINARY else [p]
                mode = 'sym' if with_sym and rng.random() < 0.12 else 'num'
                calls.append({'t': 'T1', 'kind': 'op', 'op': op, 'args': args, 'params': [], 'mode': mode})
    for name in sorted(programs):
        pats = [rng.choice(pool) for _ in range(programs[name]['nargs'])]
        calls.append({'t': 'T1', 'kind': 'prog', 'op': name, 'args': pats, 'params': [], 'mode': 'num'})
        if rng.random() < 0.5:
            calls.append({'t': 'T1', 'kind': 'prog', 'op': name, 'args': [tuple(reversed(p)) for p in pats], 'params': [], 'mode': 'num'})
    if with_fail:
        # a division that succeeds, one whose generation raises (null divisor e0 when the first generator is null), with operands of
        # the same sizes; both are repeated later (a failing call must leave nothing behind)
        p1 = rng.choice(pool)
        calls.append({'t': 'T1', 'kind': 'op', 'op': 'div', 'args': [p1, (2,)], 'params': [], 'mode': 'num'})
        calls.append({'t': 'T1', 'kind': 'op', 'op': 'div', 'args': [tuple(reversed(p1)) if rng.random() < 0.5 else p1, (1,)], 'params': [], 'mode': 'num'})
    calls.append({'t': 'T1', 'kind': 'op', 'op': 'grade', 'args': [rng.choice(pool)], 'params': [rng.randint(0, d)], 'mode': 'num'})
    rng.shuffle(calls)
    calls = calls[:max(4, n // 2)]
    again = [dict(c) for c in calls]
    rng.shuffle(again)
    return (calls + again)[:n]


def sibling_programs(rng, d, fam=None):
    """Registered one-liners over sibling operators (they resolve the operator by name at call time)."""
    fam = fam or rng.choice(FAMILIES[:8])
    progs = {}
    for i, op in enumerate(fam[:3]):
        kids = [('arg', 1), ('arg', 2)] if op in BINARY else [('arg', 1)]
        progs[f's{i}'] = {'tree': (op, kids, [], 'method'), 'nargs': len(kids), 'symbolic': False, 'pyname': f's{i}'}
    return progs


def random_programs(rng, d, n):
    progs = {}
    for i in range(n):
        nargs = rng.choice([1, 2, 2, 3])
        progs[f'p{i}'] = {'tree': PR.random_program(rng, nargs, d, rng.choice([1, 2])), 'nargs': nargs,
                          'symbolic': rng.random() < 0.2, 'pyname': f'p{i}'}
    return progs


def classify(ctx, vfiles, pfiles, vrej, prej, sessions):
    drift = 0
    for f, (eid, clause) in vrej:
        header, ev = lookup_event(f, eid)
        fp = {'kind': 'call', 'op': ev['op'], 'clause': clause, 'wrapper': bool(header['opts'].get('wrapper')),
              'mode': ev.get('mode', 'num')}
        job = sessions.get(header['sid'], {})
        fp.update(job.get('tags', {}))
        ctx.report(f"session {header['sid']} call {eid} {ev['name']} on keys {[a['keys'] for a in ev['args']]} "
                   f"(wrapper={fp['wrapper']}, mode={fp['mode']}{', source ' + ev['source'] if 'source' in ev else ''}): {clause}",
                   fp, {'session': job, 'event': ev, 'spec': 'TraceOps.tla'})
    for f, (eid, clause) in prej:
        if clause.startswith('drift_'):
            drift += 1
            if drift <= 3:
                ctx.notes.append(f'model drift (not a violation): {eid} {clause} in {os.path.basename(f)}')
            continue
        sid = eid.split('#')[0]
        fp = {'kind': 'proto', 'clause': clause}
        fp.update(sessions.get(sid, {}).get('tags', {}))
        ctx.report(f'session {sid} event {eid}: {clause}', fp, {'session': sessions.get(sid, {}), 'event_id': eid, 'trace': f, 'spec': 'TraceKingdon.tla'})
    ctx.extra['model_drift_events'] = ctx.extra.get('model_drift_events', 0) + drift


def mc_stage(ctx):
    q = ctx.quick
    runs = [('mc/MC_Kingdon_seq_nowrap.cfg', 'one thread, no wrapper, operators only'),
            ('mc/MC_Kingdon_seq_ordered.cfg', 'one thread, wrapper, registered + symbolic functions, failing generation (big alphabet)'),
            ('mc/MC_Kingdon_thr_ordered.cfg', 'two threads, wrapper: every interleaving of the atomic steps'),
            ('mc/MC_Kingdon_live.cfg', 'liveness: every call returns (weak fairness per thread)')]
    if not q:
        runs.append(('mc/MC_Kingdon_thr3.cfg', 'three threads, smaller alphabet'))
    for cfg, what in runs:
        r = ctx.mc('mc/MC_Kingdon.tla', cfg, what)
        if not r['ok']:
            ctx.report(f"Kingdon.tla ({what}) violates {r['violated']}", {'kind': 'spec', 'violated': ','.join(r['violated'])},
                       {'cfg': cfg, 'tlc_output_tail': r['out'][-3000:]})
    # sensitivity control: the set-keyed naming (pinned code before the repair) must be refuted
    r = ctx.mc('mc/MC_Kingdon.tla', 'mc/MC_Kingdon_seq_wrap.cfg', 'control: names that encode key sets (pre-repair) violate DispatchExact')
    ctx.extra['control_counterexample_for_set_keyed_names'] = 'DispatchExact' in r['violated']
    if 'DispatchExact' not in r['violated']:
        raise tlaparse_error('control run did not find the known counterexample')


def tlaparse_error(msg):
    from tlc import MachineryError
    return MachineryError(msg)


def suite_traces(ctx):
    import subprocess
    import glob as _glob
    src = os.environ.get('KINGDON_SRC', '/repo')
    out = os.path.join(ctx.work, 'suite')
    os.makedirs(out, exist_ok=True)
    env = dict(os.environ, PYTHONPATH=os.path.join(os.path.dirname(os.path.dirname(os.path.abspath(__file__))), 'harness') + os.pathsep + src,
               VERIF_TRACE_DIR=out, KINGDON_SRC=src)
    p = subprocess.run(['/venv/bin/python', '-m', 'pytest', '-q', '-p', 'pytest_trace', '-p', 'no:cacheprovider', '--timeout=900', '-n', '6'],
                       cwd=src, env=env, capture_output=True, text=True, timeout=1800)
    files = sorted(_glob.glob(out + '/suite_*.ndjson'))
    rej = ctx.validate('TraceOps.tla', 'TraceOps.cfg', files)
    ctx.extra['repository_test_suite_operator_calls_validated'] = sum(max(0, sum(1 for _ in open(f)) - 1) for f in files)
    for f, (eid, clause) in rej:
        header, ev = lookup_event(f, eid)
        ctx.report(f"operator call made by the repository test {ev.get('test', '?')}: {ev['op']} on keys {[a['keys'] for a in ev['args']]}: {clause}",
                   {'kind': 'suite', 'op': ev['op'], 'clause': clause}, {'trace_header': header, 'event': ev, 'spec': 'TraceOps.tla'})


def run(ctx):
    rng, q = ctx.rng, ctx.quick
    mc_stage(ctx)
    jobs, sessions = [], {}
    sdir = os.path.join(ctx.work, 'sessions')
    os.makedirs(sdir, exist_ok=True)

    def add(sid, u, opts, programs, history, expect=None):
        job = {'u': u, 'opts': opts, 'programs': programs, 'history': history, 'out': os.path.join(sdir, sid), 'sid': sid}
        jobs.append(job)
        sessions[sid] = {'u': u, 'opts': opts, 'programs': {k: {'source': PR.src(v['tree']), 'symbolic': v.get('symbolic', False), 'pyname': v['pyname']} for k, v in programs.items()},
                         'history': history, 'expect': expect}
    # (1) spec -> code: behaviours of the model
    behs = behaviours_from_simulation(ctx, 'mc/MC_Kingdon_sim.cfg', 40 if q else 400, 70 if q else 110, 'seq')
    model_proto = {}
    for bi, (calls, outcome, proto) in enumerate(behs):
        for wrap in (False, True):
            model_proto[f'm{bi}{"w" if wrap else "n"}'] = (calls, proto)
            hist = [model_call_to_real(op, pat, mode) for op, pat, mode in calls]
            add(f'm{bi}{"w" if wrap else "n"}', ucfg(sig=[0, 1]), {'wrapper': wrap}, {k: v for k, v in MODEL_PROGRAMS.items() if k != 'f2'}, hist, outcome)
    # (2) beyond the alphabet: random histories, d = 2, 3, wrapper on/off, cse on/off
    for i in range(60 if q else 500):
        d = rng.choice([2, 2, 3])
        sig = rng.choice([[0, 1], [1, 1], [1, -1]]) if d == 2 else rng.choice([[0, 1, 1], [1, 1, 1], [1, 1, -1]])
        progs = random_programs(rng, d, 2)
        fams = rng.sample(FAMILIES, 3)
        progs.update(sibling_programs(rng, d, rng.choice([f for f in fams if f in FAMILIES[:8]] or [None])))
        opts = {'wrapper': rng.random() < 0.5}
        if rng.random() < 0.25:
            opts['cse'] = False
        add(f'r{i}', ucfg(sig=sig) if rng.random() < 0.8 or d != 3 else named_ucfg('2DPGA'), opts, progs,
            random_history(rng, d, 16 if q else 22, progs, fams=fams))
    # (2a) sympy coefficients around failing calls, d = 4 with a null generator: squares of wedges (their grade-4 part vanishes
    # only after simplification) before and after a division by e0 / a polarity whose generation raises
    for i in range(4 if q else 30):
        u = rng.choice([ucfg(sig=[0, 1, 1, 1]), named_ucfg('3DPGA'), ucfg(sig=[0, 1, 1, -1])])
        null_key = 8 if u['basis'] else 1
        vec = [1, 2, 4, 8]
        v1, v2 = tuple(rng.sample(vec, 3)), tuple(rng.sample(vec, 3))
        sym = [{'t': 'T1', 'kind': 'op', 'op': 'wedge_sq', 'args': [v1, v2], 'params': [], 'mode': 'sym'},
               {'t': 'T1', 'kind': 'op', 'op': 'gp', 'args': [v1, v2], 'params': [], 'mode': 'sym'},
               {'t': 'T1', 'kind': 'op', 'op': 'wedge_sq', 'args': [v2, v1], 'params': [], 'mode': 'sym'}]
        fail = [{'t': 'T1', 'kind': 'op', 'op': 'div', 'args': [v1, (null_key,)], 'params': [], 'mode': 'num'},
                {'t': 'T1', 'kind': 'op', 'op': 'polarity', 'args': [v2], 'params': [], 'mode': 'num'}]
        rng.shuffle(fail)
        hist = sym[:rng.randint(0, 2)] + fail[:rng.randint(1, 2)] + sym + fail + [dict(c) for c in sym]
        add(f'y{i}', u, {'wrapper': rng.random() < 0.3}, {}, hist)
    res = run_sessions(jobs)
    vfiles = [r['values'] for r in res if r['n_values']]
    pfiles = [r['proto'] for r in res if r['n_proto']]
    skipped = [s for r in res for s in r['skipped']]
    if skipped:
        ctx.notes.append(f'{len(skipped)} call(s) skipped (time budget / not encodable), e.g. {skipped[0]}')
    vrej = ctx.validate('TraceOps.tla', 'TraceOps.cfg', vfiles)
    prej = ctx.validate('TraceKingdon.tla', 'TraceKingdon.cfg', pfiles)
    classify(ctx, vfiles, pfiles, vrej, prej, sessions)
    # observed outcomes of the replayed behaviours against what the model took (drift report)
    mism = 0
    for r in res:
        sid = os.path.basename(r['values']).split('.')[0]
        exp = sessions[sid]['expect']
        if not exp:
            continue
        evs = [json.loads(l) for l in open(r['values'])][1:]
        for ev in evs:
            ci = int(ev['id'].split(':')[-1])
            if ci < len(exp) and bool(ev['raised']) != exp[ci]['raised']:
                mism += 1
    # protocol agreement (drift metric): for replayed behaviours without composite / failing operators (whose sub-generations
    # depend on the metric), the observed Lookup / PubNames / PubCache sequence must be the one the model took
    agree = disagree = 0
    for r in res:
        sid = os.path.basename(r['proto']).split('.')[0]
        if sid not in model_proto:
            continue
        calls, proto = model_proto[sid]
        if any(c[0] in ('sw', 'div', 'symf') for c in calls):
            continue
        obs = []
        for line in list(open(r['proto']))[1:]:
            e = json.loads(line)
            if e['k'] == 'Lookup':
                obs.append(['Lookup', e['op'], e['pat'], bool(e['hit'])])
            elif e['k'] == 'PubNames':
                obs.append(['PubNames', e['fn'][0], e['fn'][1], False])
            elif e['k'] == 'PubCache':
                obs.append(['PubCache', e['op'], e['pat'], False])
        n = min(len(obs), len(proto))
        same = sum(1 for i in range(n) if obs[i] == proto[i])
        agree += same
        disagree += max(len(obs), len(proto)) - same
    ctx.extra['protocol_steps_agreeing_with_model_behaviour'] = agree
    ctx.extra['protocol_steps_differing_from_model_behaviour'] = disagree
    ctx.extra['replayed_model_behaviours'] = len(behs)
    ctx.extra['outcome_mismatches_with_model'] = mism
    # (2b) thorough: the repository's own test-suite under the recording plugin -- every operator call those tests make is
    # validated against the reference, not only what the tests assert
    if not q:
        suite_traces(ctx)
    # (2c) calls of symbolic multivectors: near-equal siblings (same symbols and blades, one float coefficient differing in the
    # 4th significant digit) called in turn on ONE algebra -- a call must not be served by what was compiled for another
    # multivector called earlier
    from drive_subst import run_jobs as _subst_jobs
    tdir = os.path.join(ctx.work, 'symcalls')
    os.makedirs(tdir, exist_ok=True)
    sj = [{'u': u_, 'opts': {}, 'cases': [], 'seed': ctx.seed + 7 * i_, 'n_sib': 6 if q else 40, 'out': os.path.join(tdir, f'y{i_}.ndjson'), 'prefix': f'y{i_}'}
          for i_, u_ in enumerate([ucfg(sig=[1, 1]), ucfg(sig=[0, 1, 1]), named_ucfg('2DPGA')] + ([] if q else [ucfg(sig=[1, 1, 1, -1]), ucfg(sig=[1, -1])]))]
    sfiles = [r_['out'] for r_ in _subst_jobs(sj) if r_['events']]
    from drive_ops import lookup_event as _lk
    for f_, (eid_, clause_) in ctx.validate('TraceOps.tla', 'TraceOps.cfg', sfiles):
        h_, ev_ = _lk(f_, eid_)
        ctx.report(f"call of the symbolic multivector on keys {ev_['args'][0]['keys']} (event {eid_}, after near-equal siblings were called): {clause_}",
                   {'kind': 'symcall', 'clause': clause_}, {'trace_header': h_, 'event': ev_, 'spec': 'TraceOps.tla'})
    # (3) thread schedules
    import c09_threads
    c09_threads.run_threads(ctx, sessions)
    hist_with_hit = 0
    for f in vfiles:
        seen = set()
        for line in list(open(f))[1:]:
            ev = json.loads(line)
            ctx.evaluations += 1
            k = (ev['name'], json.dumps([a['keys'] for a in ev['args']]), ev.get('mode'))
            if k in seen:
                hist_with_hit += 1
            seen.add(k)
            ctx.nontrivial.add((os.path.basename(f), ev['id']))
        ctx.sample({'session': os.path.basename(f), 'calls': [json.loads(l)['name'] for l in list(open(f))[1:8]]}, limit=3)
    ctx.extra['calls_repeating_an_earlier_pattern_of_their_history'] = hist_with_hit
    return ctx.finish(
        rule='history = sequence of calls on one long-lived instrumented algebra (operators x key patterns and their permutations x '
             'direct / wrapper / registered / symbolic / raising); behaviours simulated by TLC from Kingdon.tla plus random histories beyond '
             'its alphabet; every call is validated against the reference, a fresh algebra and operand snapshots, every cache/name/dispatch '
             'event against the model state; non-trivial = a validated call of a history (distinct by session and position)',
        assumptions=['the wrapper is a semantics-preserving marking decorator (numba is not installed)',
                     'thread schedules are at the granularity of GIL-atomic dict operations (cooperative scheduler)',
                     'CPython audit hooks / sys.monitoring, TLC, CommunityModules, JSON encoding, harness/generic.py'])
