"""C01 - basis-blade products follow the Clifford relations of the chosen signature.

Model checking: CliffordRef theorems (relations, word rewriting) and the refinement of kingdon's
transcribed sign algorithm (_swap_blades/_compute_sign/_blade2canon) against the reference, for
every user-level configuration TLC enumerates.  Conformance, spec -> code: every configuration in
TLC's state dump is built in the real library; code -> spec: the tables the library reports
(signs, Cayley strings, canon2bin, products of blades through the public API, permuted
spellings) are validated by TLC against the reference and against the relations themselves."""
import os
import tlaparse
import patterns as P
from kdriver import ucfg, named_ucfg
from drive_algebra import run_table_jobs


def u_from_state(st):
    u = st['u']
    return {'mode': u['mode'], 'p': u['p'], 'q': u['q'], 'r': u['r'], 'sig': list(u['sig']),
            'start': u['start'], 'basis': [list(n) for n in u['basis']]}


def run(ctx):
    q, rng = ctx.quick, ctx.rng
    ctx.mc('mc/MC_Ref.tla', 'mc/MC_Ref_quick.cfg' if q else 'mc/MC_Ref_thorough.cfg',
           'reference layer: Clifford relations + word rewriting + lemmas')
    rl = ctx.mc('mc/MC_LazyTable.tla', 'mc/MC_LazyTable_getitem.cfg', 'LazyTable (d > 6 tables): the value a reader obtains is a function of the key alone, entries never change', workers=2)
    rc = ctx.mc('mc/MC_LazyTable.tla', 'mc/MC_LazyTable_get.cfg', 'control: reading the lazy table with dict.get (no __missing__) must be refuted', workers=2)
    if not rc['violated']:
        from tlc import MachineryError
        raise MachineryError('control run of LazyTable did not find a counterexample')
    dump = os.path.join(ctx.work, 'algebra.dump')
    r = ctx.mc('mc/MC_Algebra.tla', 'mc/MC_Algebra_quick.cfg' if q else 'mc/MC_Algebra_thorough.cfg',
               'AlgebraModel refines CliffordRef on every enumerated configuration', extra_args=('-dump', dump))
    for rr in ctx.mc_runs:
        if rr['violated'] and not rr['what'].startswith('control:'):     # control runs are REQUIRED to be refuted
            ctx.report(f"specification invariant violated: {rr['violated']} in {rr['module']}",
                       {'kind': 'spec', 'violated': ','.join(rr['violated'])}, {'run': rr})
    states = tlaparse.parse_dump(dump)
    cfgs = [u_from_state(s) for s in states if s['u'].get('mode') in ('pqr', 'sig')]
    ctx.extra['configurations_from_tlc_dump'] = len(cfgs)
    cases = [(f'mc{i}', u, ctx.seed + i, {}) for i, u in enumerate(cfgs)]
    # beyond the exhaustive bounds (sampled)
    extra = []
    for name in ('2DPGA', '3DPGA', 'STAP'):
        extra.append(named_ucfg(name))
    for d, n in ((3, 12 if q else 150), (4, 6 if q else 60), (5, 2 if q else 12)):
        for _ in range(n):
            b, st = P.random_custom_basis(rng, d)
            extra.append(ucfg(sig=[rng.choice((1, -1, 0)) for _ in range(d)], basis=b))
    for d, n in ((4, 6 if q else 81), (5, 4 if q else 40), (6, 2 if q else 10)):
        sigs = P.all_sigs(d)
        for s in (rng.sample(sigs, n) if n < len(sigs) else sigs):
            extra.append(ucfg(sig=s, start=rng.choice([None, 0, 1, 2])))
    for (p_, q_, r_) in ([(3, 0, 1), (4, 1, 0), (2, 2, 1), (3, 3, 0)] if q else P.pqr_list(6)):
        if p_ + q_ + r_ >= 5 or q:
            extra.append(ucfg(p_, q_, r_))
    # lazy tables (d > 6): random look-up orders
    for d, n in ((7, 3 if q else 12), (8, 1 if q else 4)):
        for _ in range(n):
            extra.append(ucfg(sig=[rng.choice((1, -1, 0)) for _ in range(d)], start=rng.choice([None, 0, 1])))
    cases += [(f'x{i}', u, ctx.seed + 7919 * i, {}) for i, u in enumerate(extra)]
    # graded mode builds its basis blades differently (algebra.py:583-586)
    cases += [(f'g{i}', u, ctx.seed + i, {'graded': True}) for i, u in enumerate(rng.sample(cfgs, min(len(cfgs), 20 if q else 120)))]
    files = run_table_jobs(cases, os.path.join(ctx.work, 'tables'))
    rejects = ctx.validate('TraceAlgebra.tla', 'TraceAlgebra.cfg', files, header_lines=0) if files else []
    import json
    byid = {}
    for f in files:
        for line in open(f):
            ev = json.loads(line)
            byid[ev['id']] = ev
            ctx.evaluations += 1
            ctx.nontrivial.add(json.dumps([ev['u'], ev['opts']], sort_keys=True))
    some = byid[cases[len(cases) // 3][0]]
    ctx.sample({'u': some['u'], 'names': some['names'], 'bins': some['bins'], 'signs_head': some['signs'][:6],
                'cayley_head': some['cayley'][:4], 'spelled_head': some['spelled'][:4]})
    ctx.extra['sign_table_entries_validated'] = sum(len(e['signs']) for e in byid.values())
    ctx.extra['blade_products_validated'] = sum(len(e['prods']) for e in byid.values())
    ctx.extra['spellings_validated'] = sum(len(e['spelled']) for e in byid.values())
    for f, (eid, clause) in rejects:
        ev = byid[eid]
        fp = {'kind': 'table', 'clause': clause, 'basis': 'custom' if ev['u']['basis'] else 'default',
              'd': ev['d'], 'graded': bool(ev['opts'].get('graded'))}
        ctx.report(f"Algebra({ev['u']}) options {ev['opts']}: {clause}", fp,
                   {'event_id': eid, 'u': ev['u'], 'opts': ev['opts'], 'clause': clause, 'spec': 'TraceAlgebra.tla'})
    return ctx.finish(
        rule='case = user-level configuration (constructor form, signature ordering, start index, custom basis, graded flag); '
             'every configuration of the TLC state dump plus sampled ones beyond the exhaustive bounds; per configuration the '
             'complete sign table (d<=6), Cayley table, blade products and permuted spellings are validated; non-trivial = distinct configuration',
        assumptions=['digit parsing of blade names in harness/drive_algebra.py', 'TLC and CommunityModules'],
        exhaustive=False)
