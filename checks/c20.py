"""C20 - the graph widget payload reflects the multivectors it is given.

GraphModel (spec/TraceGraph.tla): the widget as a state machine (create / drag / update) over the
multivectors of a scene; Expect(tree) says what a subject tree denotes (lists / tuples nested, callables
replaced by their value, array-valued multivectors expanded element by element), Decode is the front
end's toElement (values placed by key through key2idx, or read in canonical blade order when no keys are
sent), Dragged says which coefficients a drag overwrites.  Conformance: random subject trees over colour
ints, strings, multivectors (sparse, dense in canonical or binary layout, permuted keys, list / ndarray
backed, float and integer arrays, array-valued), lists, tuples and callables are given to the real
widget (anywidget/traitlets, no front end needed); after creation and after each drag / update message
TLC decodes the payload and compares it with every reachable multivector, checks signature / Cayley
table / key2idx against AlgebraModel, and checks that a drag overwrote exactly the addressed
coefficients in place and that dependent callables were re-evaluated."""
import os
import json
import patterns as P
from kdriver import ucfg, named_ucfg
from drive_graph import run_jobs

KINDS = ['sparse', 'sparse', 'dense_canonical', 'dense_binary', 'permuted', 'ndarray_float', 'ndarray_int', 'pointlike']


def run(ctx):
    rng, q = ctx.rng, ctx.quick
    r = ctx.mc('mc/MC_Algebra.tla', 'mc/MC_Algebra_quick.cfg', 'AlgebraModel (canonical order / names / signs used by the metadata and decoding clauses)')
    for cfg, what in (('mc/MC_Graph_fixed2.cfg', 'GraphModel, 2-D, every ordered key tuple: Faithful (decode(encode) = denotation) and DragExact'),
                      ('mc/MC_Graph_fixed3.cfg', 'GraphModel, 3-D layouts (canonical, binary, permuted, sparse)')):
        r = ctx.mc('mc/MC_Graph.tla', cfg, what)
        if not r['ok']:
            ctx.report(f"GraphModel ({what}) violates {r['violated']}", {'kind': 'spec', 'violated': ','.join(r['violated'])}, {'cfg': cfg})
    r = ctx.mc('mc/MC_Graph.tla', 'mc/MC_Graph_old2.cfg', 'control: the key rule before the repair (keys omitted whenever 2^d blades are stored) must be refuted')
    ctx.extra['control_counterexample_for_length_only_key_rule'] = bool(r['violated'])
    if not r['violated']:
        from tlc import MachineryError
        raise MachineryError('control run of GraphModel did not find the known counterexample')
    us = [ucfg(sig=[1, 1]), ucfg(2, 0, 1), ucfg(3, 0, 1), ucfg(sig=[1, 1, 1]), ucfg(sig=[0, 1, 1], start=0), ucfg(sig=[1, -1, 0]), ucfg(sig=[1]), ucfg(sig=[1, 1, 1, -1])]
    if not q:
        us += [ucfg(sig=s) for s in ([0, 1], [-1, 1], [1, 1, -1], [0, 0, 1], [1, 1, 1, 1], [0, 1, 1, 1])] + [ucfg(sig=[])]
    tdir = os.path.join(ctx.work, 'graph')
    os.makedirs(tdir, exist_ok=True)
    jobs = []
    for i, u in enumerate(us):
        for k in range(2 if q else 8):
            jobs.append({'u': u, 'kinds': KINDS, 'n': 12 if q else 30, 'seed': ctx.seed + 97 * i + k, 'out': os.path.join(tdir, f'g{i}_{k}.ndjson'), 'prefix': f'g{i}.{k}'})
    res = run_jobs(jobs)
    files = [r_['out'] for r_ in res if r_['events']]
    skipped = [s for r_ in res for s in r_['skipped']]
    if skipped:
        ctx.notes.append(f'{len(skipped)} scene(s) skipped (not encodable), e.g. {skipped[0]}')
    rej = ctx.validate('TraceGraph.tla', 'TraceGraph.cfg', files)
    byid = {}
    steps = {}
    for f in files:
        lines = list(open(f))
        header = json.loads(lines[0])
        for line in lines[1:]:
            ev = json.loads(line)
            ev['_u'] = header['u']
            byid[ev['id']] = ev
            ctx.evaluations += 1
            steps[ev['step']] = steps.get(ev['step'], 0) + 1
            ctx.nontrivial.add((json.dumps(header['u']), ev['step'], json.dumps(ev['tree']), json.dumps(ev['newpoints'])))
    ctx.extra['steps'] = steps
    ex = next((e for e in byid.values() if e['step'] == 'drag' and e['raised'] == ''), None)
    if ex:
        ctx.sample({'step': 'drag', 'tree': ex['tree'], 'newpoints': ex['newpoints'], 'payload': ex['payload'], 'mvs_after': ex['mvs']})

    def kinds_in(ev):
        # which storage kinds occur in the scene (fingerprint of the known mechanisms)
        ks = set()
        for m in ev['mvs']:
            full = len(m['keys']) == 2 ** len([1 for _ in range(0)]) if False else None
        return ks
    for f, (eid, clause) in rej:
        ev = byid[eid]
        d = len(ev['_u']['sig']) if ev['_u']['mode'] == 'sig' else ev['_u']['p'] + ev['_u']['q'] + ev['_u']['r']
        nb = 2 ** d
        canon = None
        dense_noncanon = any(len(m['keys']) == nb and m['keys'] == list(range(nb)) and d >= 3 for m in ev['mvs'])
        garbage = json.dumps(ev['payload']).count(str(2 ** 30)) > 0
        fp = {'kind': 'widget', 'step': ev['step'], 'clause': clause, 'raised': ev['raised'], 'dense_binary_layout_in_scene': dense_noncanon,
              'integer_array_in_payload': garbage}
        ctx.report(f"widget {ev['step']} in {ev['_u']} tree {json.dumps(ev['tree'])[:300]}: {clause}" + (f" (raised {ev['raised']})" if ev['raised'] else ''),
                   fp, {'event': {k: v for k, v in ev.items() if k != '_u'}, 'u': ev['_u'], 'spec': 'TraceGraph.tla'})
    return ctx.finish(
        rule='scene = (configuration, random subject tree of depth <=3 over colour ints, strings, multivectors of 8 storage kinds, array-valued multivectors, '
             'lists, tuples, callables, operator callables), then 1-3 drag / update steps; non-trivial = distinct (configuration, step, tree, reported points)',
        assumptions=['only the transport is emulated in python (bytes -> Float64Array); blade placement is decided by the specification',
                     'coefficients are small integers (floats that are not integers after transport are logged as a garbage marker)',
                     'draggable_points_idxs are compared with the first-level multivectors; the front end\'s own indexing of canvas.value is not modelled',
                     'TLC, CommunityModules, JSON encoding'])
