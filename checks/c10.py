"""C10 - code is generated at most once per operator and key pattern.

Model checking: GenOnce as an action property of Kingdon.tla (one thread): every look-up of a cached
pattern is a hit, nothing is published or stored again for a cached pattern -- over all histories of
the bounded alphabet, including composite operators whose generation fills other caches and
failing generations.  Conformance: sequential histories on one instrumented algebra in which every
(operator, key pattern) is called again with other coefficient VALUES and TYPES (formal
indeterminates, int, float, Fraction, numpy arrays, sympy symbols); the recorded compile events
(audit hook), cache stores and name publications are replayed through the model state by TLC
(TraceKingdon: V_GenOnce_* clauses), so a cache key that includes values, identity, coefficient
type or anything else shows up as a compile / store for a pattern that already has an entry."""
import os
import json
import patterns as P
from kdriver import ucfg, named_ucfg
from drive_session import run_sessions
import c09

OPS2 = ['gp', 'op', 'ip', 'lc', 'rc', 'sp', 'cp', 'acp', 'rp', 'sw', 'proj', 'add', 'sub', 'div']
OPS1 = ['neg', 'reverse', 'involute', 'conjugate', 'hodge', 'unhodge', 'unpolarity', 'normsq', 'inv',
        'outerexp', 'outersin', 'outercos', 'dual', 'undual']
CTYPES = ['generic', 'int', 'float', 'frac', 'numpy', 'sym']


def typed_history(rng, d, n_pairs, programs):
    """(operator, key pattern) pairs, each called with every coefficient type, interleaved."""
    calls = []
    singles = [(b,) for b in range(2 ** d)]
    for _ in range(n_pairs):
        op = rng.choice(OPS2 + OPS1)
        r = rng.random()
        def pick():
            if r < 0.35:
                return rng.choice(singles)                   # single blades: many results vanish identically
            if r < 0.45:
                return ()
            return P.random_key_tuple(rng, d, 3, 1)
        args = [pick(), pick()] if op in OPS2 else [pick()]
        if op in ('inv', 'div') and any(len(a) == 0 for a in args):
            continue
        for ct in rng.sample(CTYPES, 4) + ['int']:
            c = {'t': 'T1', 'kind': 'op', 'op': op, 'args': args, 'params': [], 'mode': 'sym' if ct == 'sym' else 'num'}
            if ct not in ('generic', 'sym'):
                c['ctype'] = ct
            if ct in ('numpy',) and op in ('inv', 'div', 'outerexp', 'outersin', 'outercos'):
                continue
            calls.append(c)
    shared = P.random_key_tuple(rng, d, 3, 1)
    for name in sorted(programs):
        pats = [P.random_key_tuple(rng, d, 3, 1) for _ in range(programs[name]['nargs'])]
        if name in ('h', 'o1', 'o2'):
            pats = [shared]        # the nested functions meet on one key pattern
        for ct in ('generic', 'int', 'frac', 'generic'):
            c = {'t': 'T1', 'kind': 'prog', 'op': name, 'args': pats, 'params': [], 'mode': 'num'}
            if ct != 'generic':
                c['ctype'] = ct
            calls.append(c)
    # keep the first occurrence of every pattern early and shuffle the repeats among the rest
    rng.shuffle(calls)
    return calls


def run(ctx):
    rng, q = ctx.rng, ctx.quick
    for cfg, what in (('mc/MC_Kingdon_seq_nowrap.cfg', 'GenOnce, one thread, no wrapper, operators incl. composite and failing generation'),
                      ('mc/MC_Kingdon_seq_ordered.cfg', 'GenOnce, one thread, wrapper, registered + symbolic functions (big alphabet)')):
        r = ctx.mc('mc/MC_Kingdon.tla', cfg, what)
        if not r['ok']:
            ctx.report(f"Kingdon.tla ({what}) violates {r['violated']}", {'kind': 'spec', 'violated': ','.join(r['violated'])},
                       {'cfg': cfg, 'tlc_output_tail': r['out'][-3000:]})
    jobs, sessions = [], {}
    sdir = os.path.join(ctx.work, 'sessions')
    os.makedirs(sdir, exist_ok=True)

    def add(sid, u, opts, programs, history):
        jobs.append({'u': u, 'opts': opts, 'programs': programs, 'history': history, 'out': os.path.join(sdir, sid), 'sid': sid})
        sessions[sid] = {'u': u, 'opts': opts, 'history': history}
    # behaviours of the model (every call made twice in a row as well)
    behs = c09.behaviours_from_simulation(ctx, 'mc/MC_Kingdon_sim.cfg', 20 if q else 200, 70 if q else 110, 'seq')
    for bi, (calls, outcome, _proto) in enumerate(behs):
        hist = []
        for op, pat, mode in calls:
            c = c09.model_call_to_real(op, pat, mode)
            hist += [c, dict(c)]
        add(f'm{bi}', ucfg(sig=[0, 1]), {'wrapper': bi % 2 == 0}, {k: v for k, v in c09.MODEL_PROGRAMS.items() if k != 'f2'}, hist)
    for i in range(40 if q else 400):
        d = rng.choice([2, 3, 3, 4])
        u = ucfg(sig=[rng.choice((1, -1, 0)) for _ in range(d)]) if rng.random() < 0.85 else (named_ucfg('2DPGA') if d == 3 else ucfg(sig=[1] * d))
        progs = c09.random_programs(rng, d, 2)
        # nested registered functions: the inner one is needed by several outer ones and directly
        progs['h'] = {'tree': ('gp', [('arg', 1), ('arg', 1)], [], 'infix'), 'nargs': 1, 'symbolic': False, 'pyname': 'h'}
        progs['o1'] = {'tree': ('add', [('callreg', [('arg', 1)], ['h'], 'method'), ('callreg', [('arg', 1)], ['h'], 'method')], [], 'infix'), 'nargs': 1, 'symbolic': False, 'pyname': 'o1'}
        progs['o2'] = {'tree': ('reverse', [('callreg', [('arg', 1)], ['h'], 'method')], [], 'infix'), 'nargs': 1, 'symbolic': False, 'pyname': 'o2'}
        opts = {'wrapper': rng.random() < 0.3}
        if rng.random() < 0.2:
            opts['cse'] = False
        if rng.random() < 0.15:
            opts['symbolcls'] = 'sympy'
        add(f'c{i}', u, opts, progs, typed_history(rng, d, 5 if q else 8, progs))
    # value-induced failures: one key pattern, values for which the generated division works and values for which it raises
    # at RUN time (a null divisor e1 + e2 in signature (+, -)), alternating; nothing may be generated again afterwards
    for i in range(4 if q else 24):
        sig = rng.choice([[1, -1], [1, -1, 1], [-1, 1, 0]])
        num = list(P.random_key_tuple(rng, len(sig), 3, 1))
        good = {'keys': [1, 2], 'vals': [rng.choice([2, 3]), 1]}
        bad = {'keys': [1, 2], 'vals': [rng.choice([1, -1, 2]), 0]}
        bad['vals'][1] = bad['vals'][0] * rng.choice([1, -1])          # (a e1 + b e2)^2 = a^2 - b^2 = 0
        hist = []
        for spec in (good, bad, good, bad, good):
            hist.append({'t': 'T1', 'kind': 'op', 'op': rng.choice(['div', 'div', 'mulinv']) if False else 'div', 'args': [num, dict(spec)], 'params': [], 'mode': 'num'})
            hist.append({'t': 'T1', 'kind': 'op', 'op': 'inv', 'args': [dict(spec)], 'params': [], 'mode': 'num'})
        add(f'v{i}', ucfg(sig=sig), {'wrapper': i % 2 == 0}, {}, hist)
    res = run_sessions(jobs)
    vfiles = [r['values'] for r in res if r['n_values']]
    pfiles = [r['proto'] for r in res if r['n_proto']]
    skipped = [s for r in res for s in r['skipped']]
    if skipped:
        ctx.notes.append(f'{len(skipped)} call(s) skipped (time budget / not encodable), e.g. {skipped[0]}')
    prej = ctx.validate('TraceKingdon.tla', 'TraceKingdon.cfg', pfiles)
    # only the GenOnce clauses belong to this property (the value clauses are C09's)
    gen = [(f, rj) for f, rj in prej if rj[1].startswith('V_GenOnce') or rj[1].startswith('drift_')]
    c09.classify(ctx, [], pfiles, [], gen, sessions)
    other = [rj for f, rj in prej if not (rj[1].startswith('V_GenOnce') or rj[1].startswith('drift_'))]
    if other:
        ctx.notes.append(f'{len(other)} rejection(s) of other properties seen (reported by C09): e.g. {other[0]}')
    repeats = compiles = 0
    for f in pfiles:
        seen = set()
        for line in list(open(f))[1:]:
            e = json.loads(line)
            if e['k'] == 'Begin':
                k = (e['op'], json.dumps(e['pat']))
                if k in seen:
                    repeats += 1
                    ctx.nontrivial.add((os.path.basename(f), e['id']))
                seen.add(k)
                ctx.evaluations += 1
            elif e['k'] == 'Compile':
                compiles += 1
    ctx.extra['calls_repeating_a_cached_pattern'] = repeats
    ctx.extra['compile_events_observed'] = compiles
    ctx.sample({'session': sessions[jobs[-1]['sid']]['history'][:6]})
    return ctx.finish(
        rule='history = sequential calls on one instrumented algebra where every (operator, key pattern) recurs with other values and '
             'coefficient types (indeterminates, int, float, Fraction, numpy, sympy); every compile / cache store / name publication '
             'is validated against the model state; non-trivial = a call whose (operator, pattern) was already called in its history',
        assumptions=['compile() calls made from kingdon/codegen.py are the generation events (sys.addaudithook)',
                     'TLC, CommunityModules, JSON encoding'])
