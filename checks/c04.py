"""C04 - sum, difference, negation, involutions and grade selection act blade-wise.

Reference: blade-wise definitions with the grade signs (-1)^(k(k-1)/2), (-1)^k, (-1)^(k(k+1)/2);
the involution / (anti)automorphism laws are model-checked on the reference (MC_Ref:
LemmaInvolutions, LemmaAntiAutomorphisms).  Every recorded event (generic coefficients, all key
tuples d<=2, sampled to d=8) is compared per blade with the definition."""
from opscheck import run_plan
from plans import op_plan, blade_pair_plan
from refmc import run_ref_mc

OPS = ['add', 'sub', 'neg', 'reverse', 'involute', 'conjugate']


def grade_params(rng, d, op):
    k = rng.randint(0, d + 1)
    return sorted(rng.sample(range(d + 1), k))


def run(ctx):
    run_ref_mc(ctx)
    q = ctx.quick
    groups = op_plan(ctx, OPS, dims=(0, 1, 2, 3, 4, 5, 6, 7, 8), max_len={3: 8, 4: 16, 5: 12, 6: 10, 7: 8, 8: 8},
                     per_cfg=({2: 40, 3: 30, 4: 12, 5: 6, 6: 4, 7: 4, 8: 3} if q else None))
    groups += op_plan(ctx, ['grade'], params=grade_params, exhaustive2=True, dims=(0, 1, 2, 3, 4, 5, 6, 7, 8),
                      max_len={3: 8, 4: 16, 5: 16, 6: 12, 7: 10, 8: 10},
                      per_cfg=({2: 60, 3: 40, 4: 20, 5: 10, 6: 6, 7: 4, 8: 3} if q else None))
    groups += op_plan(ctx, OPS, per_cfg={2: 12, 3: 8, 4: 3} if q else {2: 80, 3: 60, 4: 20}, exhaustive2=False,
                      opts_variants=[{'cse': False}], dims=(2, 3, 4), ncfg={3: (2, 1), 4: (1, 0)})
    # single blades of every grade up to d = 8 (the involution signs depend on the grade mod 4)
    groups += blade_pair_plan(ctx, ['reverse', 'involute', 'conjugate', 'neg'], dims=(4, 5, 6, 7, 8))
    # laws on recorded results: involutions twice, (anti)automorphisms of the library's own product
    import patterns as P
    from kdriver import ucfg, named_ucfg
    from plans import config_list
    rng = ctx.rng
    for d, n in ((1, 10), (2, 40 if q else 300), (3, 30 if q else 300), (4, 12 if q else 120), (5, 4 if q else 40), (6, 2 if q else 12)):
        for u in ([ucfg(sig=s) for s in P.all_sigs(d)] if d <= 2 else config_list(ctx, d, 2 if q else 6, 1 if d <= 4 else 0)):
            kts = P.sampled_key_tuples(rng, d, 2 * n, max_len={1: 2, 2: 4, 3: 6, 4: 5, 5: 4, 6: 3}[d])
            groups.append({'u': u, 'opts': {}, 'cases': [('law', [kts[2 * i], kts[2 * i + 1]], []) for i in range(n)], 'revisit': 0})
    # the same operators on multivectors whose coefficients are kingdon's own RationalPolynomial symbols (`lawrp` events):
    # overlapping operands, the sum computed twice, operands read again afterwards
    for d, n in ((2, 12 if q else 80), (3, 8 if q else 80), (4, 3 if q else 30)):
        for u in config_list(ctx, d, 2 if q else 5, 1):
            cases = []
            for i in range(n):
                kx = list(P.random_key_tuple(rng, d, 4, 1))
                ky = rng.sample(kx, rng.randint(1, len(kx))) + [b for b in rng.sample(range(2 ** d), 2) if b not in kx][:rng.randint(0, 1)]   # overlapping blades
                rng.shuffle(ky)
                cases.append(('lawrp', [kx, ky], []))
            groups.append({'u': u, 'opts': {}, 'cases': cases, 'revisit': 0})
    run_plan(ctx, groups)
    # the same operators inside functions compiled by alg.register (TapeRecorder re-implements grade selection, negation,
    # the involutions, sums and differences), arguments in permuted / padded storage
    from regstage import run_registered
    from kdriver import named_ucfg
    X, Y = ('arg', 1), ('arg', 2)
    plan = []
    for u, d in ((ucfg(sig=[1, 1]), 2), (ucfg(sig=[1, 1, 1]), 3), (named_ucfg('2DPGA'), 3), (ucfg(sig=[0, 1, 1, 1]), 4)):
        gsel = [sorted(rng.sample(range(d + 1), rng.randint(1, d))) for _ in range(3 if q else 8)]
        one = [('grade', [X], gs, 'method') for gs in gsel] + [('neg', [X], [], 'infix'), ('reverse', [X], [], 'infix'), ('involute', [X], [], 'method'),
                                                              ('conjugate', [X], [], 'method'), ('sub', [X, ('grade', [X], gsel[0], 'method')], [], 'infix')]
        two = [('add', [X, Y], [], 'infix'), ('sub', [X, Y], [], 'infix'), ('add', [('grade', [X], gsel[0], 'method'), ('reverse', [Y], [], 'infix')], [], 'infix')]

        def pats(t, d=d, n=1):
            out = []
            for _ in range(2 if q else 5):
                base = [list(P.random_key_tuple(rng, d, 5, 2)) for _ in range(2)]
                for b_ in base:
                    rng.shuffle(b_)
                out.append(base)
            return out
        plan.append((u, 1, one, lambda t, f=pats: [[a_[0]] for a_ in f(t)]))
        plan.append((u, 2, two, pats))
    run_registered(ctx, plan, 'regc04', 'registered_c04_programs')
    return ctx.finish(
        rule='case = (configuration, options, operator in {add,sub,neg,reverse,involute,conjugate,grade(selection)}, ordered key '
             'tuples) on formal indeterminates; d<=1 all ordered key tuples (pairs), d=2 all canonical subsets (pairs) + sampled '
             'orders (thorough: all ordered tuples), d=3..8 sampled; every basis blade up to d=8 for the involutions; '
             'non-trivial = result has a non-zero coefficient',
        assumptions=['generated functions use only ring operations on their inputs', 'TLC, CommunityModules, JSON encoding, harness/generic.py'])
