"""C07 - inverse and division are exact two-sided inverses wherever they return.

The specification does not compute inverses, it VERIFIES them (certificates):
  * returned value y:  TLC checks  x*y = 1  and  y*x = 1  in the reference algebra -- over the
    field of fractions of Z[indeterminates] for generic operands (all coefficient values with
    non-zero denominator at once), over Q for integer / Fraction operands (exact), and on the
    nearest small-denominator rationals for the float results of the iterative scheme (d >= 6);
  * ZeroDivisionError:  accepted only with a zero-divisor witness w # 0, x*w = 0 (found by the
    harness, verified by TLC), which proves that no inverse exists;
  * a/b, a*b.inv(), number/x:  q*b = a;   x**-n:  inverse of the n-fold product."""
import itertools
import patterns as P
from kdriver import ucfg, named_ucfg
from opscheck import run_plan
from plans import op_plan, config_list
from refmc import run_ref_mc


def numeric_operand(rng, d, maxlen, lo=-3, hi=3, frac=False, pad=0.15):
    keys = list(P.random_key_tuple(rng, d, maxlen, 1))
    vals = []
    for _ in keys:
        if rng.random() < pad:
            vals.append(0)
        elif frac and rng.random() < 0.4:
            vals.append([rng.randint(lo, hi), rng.choice([2, 3, 4, 5])])
        else:
            vals.append(rng.randint(lo, hi))
    return {'keys': keys, 'vals': vals}


def generator_stage(ctx):
    """InverseModel: the transcribed closed forms (d <= 5) and the recursion (any d) are adjugates, agree with each other and
    the recursion terminates with exact divisions, for every operand TLC enumerates; the enumerated cases (state dump) and
    sampled ones (custom bases, d = 4..6) are replayed into the REAL generators (codegen_hitzer_inv, codegen_shirokov_inv,
    codegen_inv), whose (numerator, denominator) at the integer point TLC validates against the model (TraceInverse)."""
    import os
    import tlaparse
    from drive_inverse import run_jobs
    from drive_ops import lookup_event
    from opscheck import describe_cfg
    rng, q = ctx.rng, ctx.quick
    dump = os.path.join(ctx.work, 'inverse.dump')
    cfgs = [('mc/MC_Inverse_quick.cfg', 'InverseModel: all signatures d <= 3, operands of <= 1/2/3/2 blades with coefficients in {-1, 1, 2}')] if q else \
        [('mc/MC_Inverse_full3.cfg', 'InverseModel: all signatures d <= 3, every operand with coefficients in {-1, 1, 2} (d = 3: {-1, 1})'),
         ('mc/MC_Inverse_d45.cfg', 'InverseModel: one ordering per (p,q,r), d = 4, 5, operands of <= 2 blades'),
         ('mc/MC_Inverse_d6.cfg', 'InverseModel: the recursion in d = 6 (N = 8), one ordering per (p,q,r), operands of <= 2 blades')]
    for i, (cfg, what) in enumerate(cfgs):
        r = ctx.mc('mc/MC_Inverse.tla', cfg, what, extra_args=('-dump', dump) if i == 0 else (), timeout=3300)
        if not r['ok']:
            ctx.report(f"InverseModel ({what}) violates {r['violated']}", {'kind': 'spec', 'violated': ','.join(r['violated'])}, {'tail': r['out'][-2000:]})
    cases = [st['st'] for st in tlaparse.parse_dump(dump) if st['st'].get('phase') == 'case'] if os.path.exists(dump) else []
    ctx.extra['inverse_model_cases_from_tlc_dump'] = len(cases)
    if len(cases) > (600 if q else 6000):
        cases = rng.sample(cases, 600 if q else 6000)
    bysig = {}
    for cs in cases:
        x = cs['x']
        keys = sorted(x) if isinstance(x, dict) else []
        if not keys:
            continue
        bysig.setdefault(tuple(cs['sig']), []).append((rng.choice(['dispatch', 'hitzer', 'shirokov']), keys, [x[k] for k in keys]))
    tdir = os.path.join(ctx.work, 'adj')
    os.makedirs(tdir, exist_ok=True)
    jobs = []
    for sig, lst in bysig.items():
        for j in range(0, len(lst), 40):
            jobs.append({'u': ucfg(sig=list(sig)), 'cases': lst[j:j + 40], 'seed': ctx.seed, 'prefix': f'm{len(jobs)}', 'out': os.path.join(tdir, f'm{len(jobs)}.ndjson')})
    # beyond the model's bounds: custom bases, d = 4, 5 (closed forms) and d = 6 (recursion), permuted key tuples
    extra = [(named_ucfg('2DPGA'), 3, 12), (named_ucfg('3DPGA'), 4, 8), (ucfg(sig=[1, 1, 1, -1]), 4, 8), (ucfg(sig=[0, 1, 1, 1, 1]), 5, 4), (ucfg(sig=[1, 1, 1, 1, -1]), 5, 4),
             (ucfg(sig=[1, 1, 1, 1, 1, 1]), 6, 2), (ucfg(sig=[0, 1, 1, 1, 1, -1]), 6, 2)]
    for u, d, n in extra:
        cs = []
        for _ in range(n if q else 4 * n):
            keys = list(P.random_key_tuple(rng, d, 3 if d <= 5 else 2, 1))
            gens = ['dispatch', 'shirokov'] + (['hitzer'] if d <= 5 else [])
            cs.append((rng.choice(gens), keys, [rng.choice([1, -1, 2, -2, 3]) for _ in keys]))
        jobs.append({'u': u, 'cases': cs, 'seed': ctx.seed, 'prefix': f'x{len(jobs)}', 'out': os.path.join(tdir, f'x{len(jobs)}.ndjson'), 'budget': 240})
    res = run_jobs(jobs)
    files = [r['out'] for r in res if r['events']]
    skipped = [s_ for r in res for s_ in r['skipped']]
    if skipped:
        ctx.extra['skipped_generator_cases'] = len(skipped)
    n = 0
    for f, (eid, clause) in ctx.validate('TraceInverse.tla', 'TraceInverse.cfg', files):
        header, ev = lookup_event(f, eid)
        ctx.report(f"{ev['gen']} inverse generator in {describe_cfg(header['u'])} on x = {ev['x']}: {clause}" + (f" (raised {ev['raised']})" if ev['raised'] else ''),
                   {'kind': 'adj', 'gen': ev['gen'], 'clause': clause, 'raised': ev['raised']}, {'trace_header': header, 'event': ev, 'spec': 'TraceInverse.tla'})
    import json
    for f in files:
        lines = list(open(f))
        for line in lines[1:]:
            ev = json.loads(line)
            n += 1
            ctx.nontrivial.add(('adj', lines[0], ev['gen'], json.dumps(ev['x'])))
    ctx.extra['generator_pairs_validated'] = n


def run(ctx):
    run_ref_mc(ctx)
    generator_stage(ctx)
    rng, q = ctx.rng, ctx.quick
    groups = []
    # (1) generic coefficients: all values at once.  d <= 2: every ordered key tuple; d = 3: <= 3 blades;
    #     d = 4, 5: <= 2 blades (the rational functions grow quickly)
    groups += op_plan(ctx, ['inv'], dims=(0, 1, 2), per_cfg={2: 20 if q else 65})
    groups += op_plan(ctx, ['div', 'mulinv'], dims=(0, 1), exhaustive2=False)
    for d, ml, n, nc in ((2, 3, 14 if q else 120, None), (3, 3, 8 if q else 80, (4, 2)), (4, 2, 4 if q else 40, (3, 1)), (5, 2, 2 if q else 16, (2, 1))):
        for u in (config_list(ctx, d, *(nc or (9, 3))) if d > 2 else [ucfg(sig=s) for s in P.all_sigs(2)] + [named_ucfg('2DPGA')][:0]):
            cases = []
            for _ in range(n):
                cases.append(('inv', [P.random_key_tuple(rng, d, ml, 1)], []))
                if d <= 3:
                    cases.append((rng.choice(['div', 'mulinv']), [P.random_key_tuple(rng, d, 2, 1), P.random_key_tuple(rng, d, 2, 1)], []))
                    cases.append(('pow', [P.random_key_tuple(rng, d, 2, 1)], [rng.choice([-1, -2])]))
            groups.append({'u': u, 'opts': {}, 'cases': cases, 'revisit': 0.1})
    # (2) exact numbers (integers and fractions), closed forms d <= 5: dense, sparse, permuted, zero padded
    for d, ml, n, lohi in ((1, 2, 10, 3), (2, 4, 30, 3), (3, 8, 40, 3), (4, 16, 30, 2), (5, 6, 14, 2)):
        n = n if q else n * 8
        us = [ucfg(sig=s) for s in P.all_sigs(d)] if d <= 2 else config_list(ctx, d, (4 if q else 12), (1 if q else 4))
        for u in us:
            cases = []
            for _ in range(max(2, n // (1 if d > 2 else 3))):
                x = numeric_operand(rng, d, ml, -lohi, lohi, frac=(d <= 3))
                cases.append(('inv', [x], []))
                r = rng.random()
                if r < 0.3:
                    cases.append((rng.choice(['div', 'mulinv']), [numeric_operand(rng, d, min(ml, 4), -lohi, lohi), x], []))
                elif r < 0.45:
                    cases.append(('rdiv', [{'num': rng.choice([1, 2, -3, [1, 2]])}, x], []))
                elif r < 0.6 and d <= 4:
                    cases.append(('pow', [x], [rng.choice([-1, -2, -3])]))
            groups.append({'u': u, 'opts': {}, 'cases': cases, 'witness': True, 'revisit': 0.1})
    # (3) the iterative scheme, d = 6, 7: integer operands, float results logged as nearby fractions
    for d, n in ((6, 6 if q else 40), (7, 3 if q else 16)):
        for u in config_list(ctx, d, 2 if q else 5, 0, named=False):
            cases = [('inv', [numeric_operand(rng, d, 3, -2, 2, pad=0)], []) for _ in range(n)]
            # homogeneous operands (one grade, two or three blades, disjoint or overlapping): blades and non-blades
            for g in (1, 2, 2, 3, d - 1):
                blades = [b for b in range(2 ** d) if bin(b).count('1') == g]
                ks = rng.sample(blades, rng.choice([2, 2, 3]))
                cases.append(('inv', [{'keys': ks, 'vals': [rng.choice([1, 2, -1, 3]) for _ in ks]}], []))
                cases.append(('mulinv', [numeric_operand(rng, d, 2, -2, 2, pad=0), {'keys': ks, 'vals': [rng.choice([1, 2, -1]) for _ in ks]}], []))
            groups.append({'u': u, 'opts': {}, 'cases': cases, 'witness': True, 'revisit': 0})
    # (4) the same blades in several storage orders on ONE algebra with a wrapper set (functions are then called by name):
    #     x.inv(), y.inv(), x.inv() again, a/x, number/x
    for d, sig in ((2, [1, 1]), (3, [1, 1, 1]), (3, [1, -1, 0]), (4, [1, 1, 1, -1])):
        cases = []
        for _ in range(6 if q else 40):
            base = list(P.random_key_tuple(rng, d, 3, 2))
            perms = [tuple(base), tuple(reversed(base)), tuple(rng.sample(base, len(base)))]
            for k in perms:
                cases.append(('inv', [k], []))
                cases.append((rng.choice(['div', 'mulinv']), [P.random_key_tuple(rng, d, 2, 1), k], []))
        rng.shuffle(cases)
        groups.append({'u': ucfg(sig=sig), 'opts': {'wrapper': True}, 'cases': cases, 'revisit': 0.6})
    run_plan(ctx, groups, budget=90)
    import kdriver
    return ctx.finish(
        rule='case = (configuration, operator in {inv, div, a*b.inv(), number/x, x**-n}, operand key tuples, generic or numeric '
             'coefficients); generic: all ordered key tuples d<=2, <=3 stored blades d=3, <=2 above; numeric: ints in [-3,3] and '
             'fractions, dense/sparse/permuted/zero-padded, all signatures d<=2, sampled d=3..5, iterative scheme d=6,7; '
             'non-trivial = returned inverse verified two-sided or ZeroDivisionError certified by a zero-divisor witness',
        assumptions=['float results of the iterative scheme are compared through the nearest fraction with denominator <= 10^5 (distance <= 1e-7 relative); events that cannot be so encoded are skipped and counted',
                     'integers reaching TLC stay below 2^28 (larger cases are skipped and counted)',
                     'TLC, CommunityModules, JSON encoding, harness/generic.py; harness/pyref.py only proposes witnesses, TLC verifies them'])
