#!/venv/bin/python
"""Entry point of all checks:  check.py <property id> [--tier quick|thorough] [--seed N] [--replay path]"""
import os
import sys
import importlib

HERE = os.path.dirname(os.path.abspath(__file__))
sys.path.insert(0, HERE)
sys.path.insert(0, os.path.join(os.path.dirname(HERE), 'harness'))
os.environ.setdefault('PYTHONHASHSEED', '0')

if __name__ == '__main__':
    if len(sys.argv) < 2:
        print(__doc__)
        sys.exit(2)
    pid = sys.argv.pop(1)
    import common
    try:
        mod = importlib.import_module(pid.lower())
    except ModuleNotFoundError as e:
        print(f'MACHINERY-FAILURE property={pid}: no check module ({e})', file=sys.stderr)
        sys.exit(2)
    common.main(pid, mod.run)
