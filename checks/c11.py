"""C11 - registered (compiled) expressions equal direct evaluation.

Specification: TapeModel -- a registered function is an expression tree whose inner nodes are
callee NAMES resolved in numspace at call time (Kingdon.tla: Callees / Exec; DispatchExact covers
name resolution) -- and MultivectorRef!EvalTree, the semantics Sem(program) of a program over the
operator table.  Conformance: every program form of the README operator table at depth 1 (infix and
method forms, numbers on either side, powers of both signs, grade selection, coefficient access,
calls of other registered functions) and sampled deeper trees, for one to three arguments, several
key patterns, registered plainly and with symbolic=True, run on formal indeterminates.  TLC
validates  registered = plain python function  (blade by blade),  = Sem(program)  for polynomial
programs,  = the same call on a fresh algebra;  inside the listed grammar a registered function may
raise only if the plain function raises."""
import os
import json
import patterns as P
import programs as PR
from kdriver import ucfg, named_ucfg
from drive_session import run_sessions
import c09


def arg_patterns(rng, d, nargs, n):
    out = []
    blocks = P.grade_blocks(d)
    for _ in range(n):
        pats = []
        for _ in range(nargs):
            r = rng.random()
            if r < 0.4:
                b = rng.choice(blocks)
                pats.append(tuple(b) if len(b) <= 4 else tuple(rng.sample(b, 3)))
            else:
                pats.append(P.random_key_tuple(rng, d, 3, 1))
        out.append(pats)
    return out


FRACNUM = []


def run(ctx):
    rng, q = ctx.rng, ctx.quick
    for cfg, what in (('mc/MC_Kingdon_seq_ordered.cfg', 'registered functions resolve callees by name at call time: DispatchExact over all histories'),):
        r = ctx.mc('mc/MC_Kingdon.tla', cfg, what)
        if not r['ok']:
            ctx.report(f"Kingdon.tla ({what}) violates {r['violated']}", {'kind': 'spec', 'violated': ','.join(r['violated'])}, {'cfg': cfg})
    # TapeModel: the transcribed TapeRecorder against Sem(program), every program of the bounded grammar x key patterns;
    # controls: the constants of the pinned (pre-repair) code must be refuted
    dump = os.path.join(ctx.work, 'tape.dump')
    r = ctx.mc('mc/MC_Tape.tla', 'mc/MC_Tape_quick.cfg' if q else 'mc/MC_Tape_fixed.cfg',
               'TapeModel: TapeFaithful for every program of the bounded grammar (depth 1' + ('' if q else ' and 2') + ') x signatures x key patterns',
               extra_args=('-dump', dump))
    if not r['ok']:
        ctx.report(f"TapeModel violates {r['violated']}", {'kind': 'spec', 'violated': ','.join(r['violated'])}, {'tail': r['out'][-2000:]})
    for cfg, what in (('mc/MC_Tape_old_pow.cfg', 'control: x ** -n ignoring the sign (pinned code) must be refuted'),
                      ('mc/MC_Tape_old_coef.cfg', 'control: coefficient access keyed by the blade (pinned code) must be refuted')):
        rc = ctx.mc('mc/MC_Tape.tla', cfg, what)
        if not rc['violated']:
            from tlc import MachineryError
            raise MachineryError(f'control run {cfg} did not find the known counterexample')
    jobs, sessions = [], {}
    sdir = os.path.join(ctx.work, 'sessions')
    os.makedirs(sdir, exist_ok=True)
    sid = [0]

    def add(u, opts, programs, history, tags=None):
        s = f's{sid[0]}'
        sid[0] += 1
        jobs.append({'u': u, 'opts': opts, 'programs': programs, 'history': history, 'out': os.path.join(sdir, s), 'sid': s, 'budget': 60})
        sessions[s] = {'u': u, 'opts': opts, 'programs': {k: {'source': PR.src(v['tree']), 'symbolic': v.get('symbolic', False)} for k, v in programs.items()},
                       'history': history, 'tags': tags or {}, 'bitwise': {k: PR.bitwise_on_numbers(v['tree']) for k, v in programs.items()}}
    # two different registered functions with the same __name__ (closures from one factory)
    for wrap in (False, True):
        for k in range(2 if q else 10):
            d = 2
            progs = {'g2': {'tree': ('gp', [('num', 2), ('arg', 1)], [], 'infix'), 'nargs': 1, 'symbolic': False, 'pyname': 'g'},
                     'g3': {'tree': ('gp', [('num', 3), ('arg', 1)], [], 'infix'), 'nargs': 1, 'symbolic': False, 'pyname': 'g'},
                     'g4': {'tree': ('reverse', [('arg', 1)], [], 'infix'), 'nargs': 1, 'symbolic': False, 'pyname': 'g'}}
            pats = [P.random_key_tuple(rng, d, 3, 1) for _ in range(2)]
            hist = [{'t': 'T1', 'kind': 'prog', 'op': n, 'args': [p], 'params': [], 'mode': 'num'} for p in pats for n in ('g2', 'g3', 'g4', 'g2', 'g3')]
            add(ucfg(sig=[1, 1]), {'wrapper': wrap}, progs, hist, tags={'samename': True, 'wrapper': wrap})
    # spec -> code: the cases TLC enumerated for TapeModel (state dump) are replayed into the real register()
    import tlaparse
    names2 = {0: 'e', 1: 'e1', 2: 'e2', 3: 'e12'}

    def conv(t):
        if t['n'] == 'arg':
            return ('arg', t['i'])
        if t['n'] == 'num':
            num = t['v'][0]
            k = num.get((), 0) if isinstance(num, dict) else 0
            return ('num', int(k))
        if t['n'] == 'coef':
            return ('coef', [conv(t['c'][0])], [names2[t['p'][0]]], 'method')
        return (t['n'], [conv(x) for x in t['c']], list(t['p']), 'infix' if t['n'] in PR.INFIX or t['n'] in ('neg', 'reverse', 'pow') else 'method')
    cases = [st['st'] for st in tlaparse.parse_dump(dump) if st['st'].get('phase') == 'case'] if os.path.exists(dump) else []
    ctx.extra['tape_model_cases_from_tlc_dump'] = len(cases)
    if len(cases) > (400 if q else 4000):
        cases = rng.sample(cases, 400 if q else 4000)
    bysig = {}
    for cs in cases:
        bysig.setdefault(tuple(cs['sig']), []).append(cs)
    for sig, lst in bysig.items():
        for i in range(0, len(lst), 12):
            progs, hist = {}, []
            for j, cs in enumerate(lst[i:i + 12]):
                try:
                    t = conv(cs['tree'])
                except (KeyError, TypeError, AttributeError):
                    continue
                nm = f'm{j}'
                progs[nm] = {'tree': t, 'nargs': 2, 'symbolic': False, 'pyname': nm}
                hist.append({'t': 'T1', 'kind': 'prog', 'op': nm, 'args': [tuple(k) for k in cs['keys']], 'params': [], 'mode': 'num'})
            if progs:
                add(ucfg(sig=list(sig)), {'wrapper': rng.random() < 0.3}, progs, hist)
    cfgs = [(2, ucfg(sig=[1, 1])), (2, ucfg(sig=[0, 1])), (3, ucfg(sig=[1, 1, -1])), (3, named_ucfg('2DPGA'))]
    if not q:
        cfgs += [(3, ucfg(sig=[0, 1, 1])), (2, ucfg(sig=[1, -1], start=0)), (4, ucfg(sig=[1, 1, 1, -1])), (4, named_ucfg('3DPGA'))]
    for d, u in cfgs:
        # depth 1: every form of the operator table
        for nargs in (1, 2):
            trees = PR.depth1_programs(nargs, d)
            # coefficient access and calls of other registered functions
            names = ['e'] + ['e' + ''.join('%x' % x for x in n) for n in u['basis'][1:3]] if u['basis'] else ['e', 'e1', 'e12']
            for nm in names:
                trees.append(('coef', [('arg', 1)], [nm], 'method'))
                trees.append(('gp', [('coef', [('arg', 1)], [nm], 'method'), ('arg', nargs)], [], 'infix'))
            if q:
                trees = rng.sample(trees, min(len(trees), 70 if d == 2 else 45))
            if nargs == 1:
                # coefficient access through the algebra's OWN blade names, canonical and permuted spellings (a permuted
                # spelling reads the coefficient with the sign of the permutation, as MultiVector.__getattr__ does)
                from kdriver import make_algebra as _mk
                cn = list(_mk(u).canon2bin)
                sp = [n_ for n_ in cn if len(n_) == 3][:2] + [n_ for n_ in cn if len(n_) == 4][:1]
                perm = [n_[0] + n_[1:][::-1] for n_ in sp] + [n_[0] + n_[2:] + n_[1] for n_ in sp if len(n_) == 4]
                for nm in sp + perm:
                    trees.append(('coef', [('arg', 1)], [nm], 'method'))
                    trees.append(('gp', [('coef', [('arg', 1)], [nm], 'method'), ('arg', 1)], [], 'infix'))
            if nargs == 1 and d == 2:
                # a plain number added to / subtracted from a FRACTION-valued subexpression (inverse, quotient, negative power),
                # on either side: the code-generation symbols must add k * denominator, not k, to the numerator
                X = ('arg', 1)
                fr = [('inv', [X], [], 'method'), ('pow', [X], [-2], 'infix'), ('div', [('reverse', [X], [], 'infix'), X], [], 'infix')]
                FRACNUM.clear()
                for f in fr:
                    for k in (2, -3):
                        FRACNUM.extend([('add', [f, ('num', k)], [], 'infix'), ('add', [('num', k), f], [], 'infix'),
                                        ('sub', [f, ('num', k)], [], 'infix'), ('sub', [('num', k), f], [], 'infix')])
                trees += rng.sample(FRACNUM, 8 if q else len(FRACNUM))
            if nargs == 1:
                # a dual directly followed by an undual of the same or of another kind (and vice versa), all spellings
                chains = PR.dual_chains(polarity=(0 not in u['sig'] and u['r'] == 0))
                trees += rng.sample(chains, 16 if q else len(chains))
            for i in range(0, len(trees), 8):
                chunk = trees[i:i + 8]
                for symbolic in (False, True):
                    progs, hist = {}, []
                    for j, t in enumerate(chunk):
                        if symbolic and PR.ops_in(t) & {'norm', 'normalized', 'sqrt', 'outertan', 'inv', 'div', 'coef'} and d >= 3 and q:
                            continue
                        name = f'p{j}'
                        progs[name] = {'tree': t, 'nargs': nargs, 'symbolic': symbolic, 'pyname': name}
                    # one helper that other programs may call
                    progs['h'] = {'tree': ('gp', [('arg', 1), ('arg', 1)], [], 'infix'), 'nargs': 1, 'symbolic': False, 'pyname': 'h'}
                    progs['hc'] = {'tree': ('callreg', [('reverse', [('arg', 1)], [], 'infix')], ['h'], 'method'), 'nargs': 1, 'symbolic': False, 'pyname': 'hc'}
                    for name, pd in progs.items():
                        if pd['tree'] in FRACNUM:       # operands with a scalar part (the inverse then has one too)
                            for pats in ([(0, 3)], [(3, 0)], [(0, 1, 2, 3)]):
                                hist.append({'t': 'T1', 'kind': 'prog', 'op': name, 'args': pats, 'params': [], 'mode': 'num'})
                        for pats in arg_patterns(rng, d, pd['nargs'], 2 if q else 3):
                            hist.append({'t': 'T1', 'kind': 'prog', 'op': name, 'args': pats, 'params': [], 'mode': 'num'})
                            if rng.random() < 0.3:      # same blades, other storage order
                                hist.append({'t': 'T1', 'kind': 'prog', 'op': name, 'args': [tuple(reversed(p)) for p in pats], 'params': [], 'mode': 'num'})
                    rng.shuffle(hist)
                    # options of the algebra vary from session to session (rarely combined with registered functions)
                    add(u, rng.choice([{'wrapper': True}, {'wrapper': False}, {'wrapper': False}, {'cse': False}, {'symbolcls': 'sympy'},
                                       {'cse': False, 'wrapper': True}]), progs, hist)
        # graded mode x registered functions: complete grade blocks as argument patterns (default bases only)
        if not u['basis']:
            blocks = [tuple(b_) for b_ in P.grade_blocks(d) if len(b_) <= 6]
            gtrees = [t_ for t_ in PR.depth1_programs(2, d) if not PR.ops_in(t_) & {'norm', 'normalized', 'sqrt', 'outertan', 'inv', 'div', 'pow'}]
            gtrees = rng.sample(gtrees, 16 if q else min(len(gtrees), 80))
            for i in range(0, len(gtrees), 8):
                progs, hist = {}, []
                for j, t_ in enumerate(gtrees[i:i + 8]):
                    progs[f'g{j}'] = {'tree': t_, 'nargs': 2, 'symbolic': False, 'pyname': f'g{j}'}
                    for _ in range(2):
                        hist.append({'t': 'T1', 'kind': 'prog', 'op': f'g{j}', 'args': [rng.choice(blocks), rng.choice(blocks)], 'params': [], 'mode': 'num'})
                rng.shuffle(hist)
                add(u, {'graded': True, 'wrapper': rng.random() < 0.3}, progs, hist)
        # mirrored storage patterns: both arguments hold the SAME blades, one permuted -- (K', K), then (K, K'), then (K', K)
        # again: the operator functions a compiled body calls BY NAME must be the ones of exactly these ordered key tuples
        X_, Y_ = ('arg', 1), ('arg', 2)
        mtrees = [('gp', [X_, Y_], [], 'infix'), ('op', [X_, Y_], [], 'infix'), ('sw', [X_, Y_], [], 'infix'),
                  ('add', [('grade', [('gp', [X_, Y_], [], 'infix')], [2], 'method'), ('gp', [('num', 2), X_], [], 'infix')], [], 'infix')]
        for k in range(2 if q else 8):
            K_ = sorted(P.random_key_tuple(rng, d, 3, 2))
            Kp = list(K_)
            while Kp == K_:
                rng.shuffle(Kp)
            progs = {f'm{j}': {'tree': t_, 'nargs': 2, 'symbolic': False, 'pyname': f'm{j}'} for j, t_ in enumerate(mtrees)}
            hist = []
            for a_, b_ in ((Kp, K_), (K_, Kp), (Kp, K_), (K_, K_), (Kp, Kp), (K_, Kp)):
                for nm in progs:
                    hist.append({'t': 'T1', 'kind': 'prog', 'op': nm, 'args': [tuple(a_), tuple(b_)], 'params': [], 'mode': 'num'})
            add(u, {'wrapper': k % 2 == 0}, progs, hist)
        # deeper trees, 1..3 arguments
        for k in range(6 if q else 60):
            progs, hist = {}, []
            for j in range(5):
                nargs = rng.choice([1, 2, 2, 3])
                t = PR.random_program(rng, nargs, d, rng.choice([2, 2, 3]), allow_rational=(d == 2), callable_regs=[('h', 1)] if j > 2 else ())
                progs[f'p{j}'] = {'tree': t, 'nargs': nargs, 'symbolic': rng.random() < 0.25, 'pyname': f'p{j}'}
            progs['h'] = {'tree': ('sw', [('arg', 1), ('arg', 1)], [], 'infix'), 'nargs': 1, 'symbolic': False, 'pyname': 'h'}
            for name, pd in progs.items():
                for pats in arg_patterns(rng, d, pd['nargs'], 2):
                    hist.append({'t': 'T1', 'kind': 'prog', 'op': name, 'args': pats, 'params': [], 'mode': 'num'})
            rng.shuffle(hist)
            add(u, {'wrapper': rng.random() < 0.3}, progs, hist)
    res = run_sessions(jobs)
    vfiles = [r['values'] for r in res if r['n_values']]
    pfiles = [r['proto'] for r in res if r['n_proto']]
    skipped = [s for r in res for s in r['skipped']]
    if skipped:
        ctx.notes.append(f'{len(skipped)} call(s) skipped (time budget / not encodable), e.g. {skipped[0]}')
        ctx.extra['skipped_calls'] = len(skipped)
    vrej = ctx.validate('TraceOps.tla', 'TraceOps.cfg', vfiles)
    prej = ctx.validate('TraceKingdon.tla', 'TraceKingdon.cfg', pfiles)
    prej = [(f, rj) for f, rj in prej if rj[1].startswith('V_DispatchExact') or rj[1].startswith('drift_')]
    # fingerprints carry the program source so that known findings are matched by mechanism
    from drive_ops import lookup_event
    for f, (eid, clause) in vrej:
        header, ev = lookup_event(f, eid)
        srcs = ev.get('source', '')
        pd = sessions[header['sid']]['programs'].get(ev['name'], {})
        mech = 'other'
        if '** -' in srcs:
            mech = 'negative_power'
        elif '.e' in srcs and any(ch.isdigit() or ch == ')' or ch == ' ' for ch in srcs.split('.e', 1)[1][:1] + ' '):
            mech = 'coefficient_access'
        fp = {'kind': 'prog', 'clause': clause, 'mechanism': mech, 'symbolic': bool(pd.get('symbolic')), 'raised': ev['raised']}
        fp['bitwise_on_numbers'] = bool(sessions[header['sid']].get('bitwise', {}).get(ev['name']))
        fp.update(sessions[header['sid']].get('tags', {}))
        ctx.report(f"session {header['sid']} {ev['name']} = {srcs} (symbolic={fp['symbolic']}, wrapper={bool(header['opts'].get('wrapper'))}) on keys "
                   f"{[a['keys'] for a in ev['args']]}: {clause}" + (f" (raised {ev['raised']})" if ev['raised'] else ''),
                   fp, {'session': sessions[header['sid']], 'event': ev, 'spec': 'TraceOps.tla'})
    c09.classify(ctx, [], pfiles, [], prej, sessions)
    distinct = set()
    for f in vfiles:
        for line in list(open(f))[1:]:
            ev = json.loads(line)
            ctx.evaluations += 1
            if ev['raised'] == '' and ev['res']['keys']:
                distinct.add((ev.get('source'), json.dumps([a['keys'] for a in ev['args']]), os.path.basename(f)))
            if len(ctx.samples) < 4 and ev.get('hastree'):
                ctx.sample({'program': ev.get('source'), 'args': [a['keys'] for a in ev['args']], 'result_keys': ev['res']['keys']})
    ctx.nontrivial = distinct
    return ctx.finish(
        rule='case = (configuration, program tree, plain / symbolic registration, wrapper, argument key patterns) run on formal indeterminates; '
             'depth 1: every operator form of the README table (sampled in quick), deeper trees sampled, 1-3 arguments; non-trivial = distinct '
             '(program, key patterns) whose registered result is a non-empty multivector validated against the plain function',
        assumptions=['programs whose plain evaluation raises (e.g. sqrt of indeterminates) only constrain the registered function not to return a value silently different: they are accepted',
                     'TLC, CommunityModules, JSON encoding, harness/generic.py, harness/programs.py (source text of the programs)'])
