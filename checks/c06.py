"""C06 - sandwich, projection and squared norm equal their defining compositions.

TLC computes GP(GP(x,y),~x), GP(IP(x,y),~y), GP(x,~x) over Z[indeterminates] and compares per blade
with the polynomial the generated function computes (absent blade = 0): a blade may be missing
from the result only if its coefficient is identically zero.  Run with cse on/off and with both
symbol classes (these operators are generated through RationalPolynomial / sympy and lambdify)."""
from opscheck import run_plan
from plans import op_plan, blade_pair_plan
from refmc import run_ref_mc

OPS = ['sw', 'proj', 'normsq']


def run(ctx):
    run_ref_mc(ctx)
    q = ctx.quick
    ml = {3: 8, 4: 6, 5: 5}
    groups = op_plan(ctx, OPS, dims=(0, 1, 2, 3, 4, 5), max_len=ml,
                     per_cfg=({2: 40, 3: 30, 4: 14, 5: 6} if q else {2: 300, 3: 300, 4: 120, 5: 40}),
                     ncfg=({3: (4, 2), 4: (3, 1), 5: (2, 1)} if q else {3: (10, 10), 4: (8, 5), 5: (5, 2)}))
    for opts in ({'cse': False}, {'symbolcls': 'sympy'}, {'cse': False, 'symbolcls': 'sympy'}):
        groups += op_plan(ctx, OPS, dims=(1, 2, 3, 4), max_len=ml, exhaustive2=False, opts_variants=[opts],
                          per_cfg=({2: 10, 3: 8, 4: 4} if q else {2: 80, 3: 80, 4: 30}), ncfg={3: (2, 1), 4: (1, 0)})
    # pure-parity / grade-block operands in d = 4, 5 (versor-like patterns are where shortcuts hide)
    import patterns as P
    from kdriver import ucfg
    rng = ctx.rng
    for d, n in ((4, 60 if q else 400), (5, 20 if q else 150)):
        blocks = [b for b in P.grade_blocks(d) if len(b) <= (8 if d == 4 else 11)]
        cases = []
        for _ in range(n):
            a = rng.choice(blocks)
            if len(a) > 6:
                a = tuple(rng.sample(a, 6))
            b = rng.choice(blocks)
            if len(b) > 6:
                b = tuple(rng.sample(b, 6))
            cases.append((rng.choice(['sw', 'proj']), [a, b], []))
        groups.append({'u': ucfg(sig=rng.choice(P.sig_classes(d))), 'opts': {}, 'cases': cases})
    # operands made of a blade and its complement (and a third blade): the products that reach the pseudoscalar
    for d in (3, 4, 5):
        nb = 2 ** d
        cases = []
        for _ in range(20 if q else 120):
            i = rng.randrange(nb)
            keys = [i, (nb - 1) ^ i] + ([rng.randrange(nb)] if rng.random() < 0.5 else [])
            keys = list(dict.fromkeys(keys))
            rng.shuffle(keys)
            cases.append(('normsq', [tuple(keys)], []))
            cases.append((rng.choice(['sw', 'proj']), [tuple(keys), P.random_key_tuple(rng, d, 3, 1)], []))
        groups.append({'u': ucfg(sig=rng.choice(P.sig_classes(d))), 'opts': {}, 'cases': cases})
    groups += blade_pair_plan(ctx, ['sw', 'proj'], dims=(3, 4, 5), n={3: 64, 4: 256, 5: 200} if q else {3: 64, 4: 256, 5: 1024})
    from plans import mirrored_wrapper_groups
    groups += mirrored_wrapper_groups(ctx, ['sw', 'proj'])
    run_plan(ctx, groups, budget=60)
    # the composite operators on sympy-symbolic operands, graded mode on / off (their generation and the symbolic call path both
    # go through the zero filter)
    from symstage import run_symbolic
    run_symbolic(ctx, ['sw', 'proj', 'normsq'], 'symbolic_composite_events')
    return ctx.finish(
        rule='case = (configuration, options {cse, symbol class}, operator in {sw, proj, normsq}, ordered key tuples) on formal '
             'indeterminates; d<=1 all ordered pairs, d=2 all canonical subset pairs + sampled orders (thorough: all), d=3..5 '
             'sampled grade blocks / sparse permuted patterns (<= 8/6/5 stored blades), pure-grade-block operands, all blade pairs; '
             'non-trivial = result has a non-zero coefficient polynomial',
        assumptions=['generated functions use only ring operations on their inputs', 'TLC, CommunityModules, JSON encoding, harness/generic.py'])
