"""C09, thread schedules: interleavings of the model's atomic steps chosen by TLC (simulation of
Kingdon.tla with two threads) are forced on the real object by the cooperative scheduler of
harness/drive_session.py; in addition random schedules for random histories and free-running
threads with a tiny switch interval.  Everything executed is recorded and validated like the
sequential sessions (values: TraceOps `call` events; protocol: TraceKingdon with threads > 1)."""
import os
import glob
import json
import tlaparse
import patterns as P
from kdriver import ucfg
from drive_session import run_threaded_sessions

POINTS = {'Begin': 1, 'Lookup': 1, 'PubNames': 1, 'PubCache': 1, 'Exec': 1}


def schedules_from_simulation(ctx, n, depth):
    from c09 import model_call_to_real
    simdir = os.path.join(ctx.work, 'sim_thr')
    os.makedirs(simdir, exist_ok=True)
    ctx.mc('mc/MC_Kingdon.tla', 'mc/MC_Kingdon_simthr.cfg', f'simulation of {n} two-thread behaviours (depth {depth}) for schedule replay',
           workers=1, extra_args=('-simulate', f'file={simdir}/tr,num={n}', '-depth', str(depth), '-seed', str(ctx.seed + 1)))
    out = []
    for f in sorted(glob.glob(simdir + '/tr_*')):
        threads, sched = {}, []
        for label, st in tlaparse.parse_simulation_file(f):
            ev = st['ev']
            t = ev['t']
            if ev['type'] == 'init':
                continue
            if ev['type'] == 'Begin':
                mode = st['stack'][t][0]['mode']
                call = model_call_to_real(ev['op'], [list(k) for k in ev['pat']], mode)
                call['t'] = t
                threads.setdefault(t, []).append(call)
            npts = POINTS.get(ev['type'], 0)
            if ev['type'] == 'Dispatch':
                npts = 2 if ev['hit'] else 1
            sched += [t] * npts
        if len(threads) >= 2:
            out.append((threads, sched))
    return out


def run_threads(ctx, sessions):
    from c09 import MODEL_PROGRAMS, classify, random_history, random_programs
    rng, q = ctx.rng, ctx.quick
    sdir = os.path.join(ctx.work, 'threads')
    os.makedirs(sdir, exist_ok=True)
    jobs = []

    def add(sid, u, opts, programs, threads, schedule, free=False):
        jobs.append({'u': u, 'opts': opts, 'programs': programs, 'threads': threads, 'schedule': schedule,
                     'out': os.path.join(sdir, sid), 'sid': sid})
        sessions[sid] = {'u': u, 'opts': opts, 'threads': threads, 'schedule_head': schedule[:60]}
    progs = {k: v for k, v in MODEL_PROGRAMS.items() if k in ('f', 'g')}
    for i, (threads, sched) in enumerate(schedules_from_simulation(ctx, 30 if q else 300, 80 if q else 120)):
        for wrap in (True, False):
            add(f't{i}{"w" if wrap else "n"}', ucfg(sig=[0, 1]), {'wrapper': wrap}, progs, threads, sched)
    # random histories, random schedules, 2 or 3 threads
    for i in range(16 if q else 200):
        d = rng.choice([2, 3])
        sig = rng.choice([[0, 1], [1, 1]]) if d == 2 else rng.choice([[0, 1, 1], [1, 1, -1]])
        rp = random_programs(rng, d, 2)
        nthr = rng.choice([2, 2, 3])
        hist = random_history(rng, d, 4 * nthr, rp, with_sym=True)
        # all threads draw from one small pool of patterns so that they collide on cache entries
        threads = {f't{k + 1}': hist[k::nthr] for k in range(nthr)}
        sched = [f't{rng.randint(1, nthr)}' for _ in range(400)]
        add(f'q{i}', ucfg(sig=sig), {'wrapper': rng.random() < 0.6}, rp, threads, sched)
    res = run_threaded_sessions(jobs)
    vfiles = [r['values'] for r in res if r['n_values']]
    pfiles = [r['proto'] for r in res if r['n_proto']]
    incomplete = [r for r in res if not r['completed']]
    if incomplete:
        ctx.notes.append(f'{len(incomplete)} threaded session(s) hit the scheduler timeout and were validated as far as they went')
    vrej = ctx.validate('TraceOps.tla', 'TraceOps.cfg', vfiles)
    prej = ctx.validate('TraceKingdon.tla', 'TraceKingdon.cfg', pfiles)
    classify(ctx, vfiles, pfiles, vrej, prej, sessions)
    ctx.extra['thread_sessions'] = len(jobs)
    ctx.extra['scheduler_steps_forced'] = sum(r['steps_forced'] for r in res)
    for f in vfiles:
        for line in list(open(f))[1:]:
            ev = json.loads(line)
            ctx.evaluations += 1
            ctx.nontrivial.add((os.path.basename(f), ev['id']))
    if res:
        hdr = json.loads(open(res[0]['proto']).readline())
        ctx.sample({'thread_session': res[0]['proto'], 'forced_interleaving_head': hdr.get('forced', [])[:16]})
