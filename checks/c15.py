"""C15 - multivector construction and coefficient access round-trip.

ConstructModel (spec/TraceConstruct.tla): the contract of every construction form -- the multivector
denotes sum parity(spelling) x coefficient x canonical blade over the supplied pairs, inconsistent
input raises -- and of every accessor (attribute access with any spelling, items, containment,
grade, asfullmv in both layouts, map, filter).  AlgebraModel supplies spelling parity, canonical order
and IndicesForGrades (model-checked against the Clifford reference in MC_Algebra).  Conformance: for
every configuration (default / custom bases, graded or not) one algebra instance builds many
multivectors through all forms and reads each back with every spelling (all permutations for blades
up to grade 3); TLC validates every event."""
import os
import json
import patterns as P
from kdriver import ucfg, named_ucfg
from drive_construct import run_jobs

FORMS = ['kv_int', 'kv_name', 'mapping_int', 'mapping_name', 'kwargs', 'kwargs', 'grades_list', 'full', 'helper', 'grades_kv', 'blade',
         'byname_full', 'byname_keys', 'byname_keys', 'byname_grades', 'byname_helper',
         'bad_length', 'bad_grade_keys', 'bad_grades']
GRADED_FORMS = ['kv_int', 'kv_name', 'mapping_int', 'kwargs', 'grades_list', 'full', 'helper', 'byname_full', 'byname_keys', 'byname_grades', 'graded_perm', 'graded_perm', 'bad_graded_incomplete', 'bad_length', 'bad_grades']


# value types of the supplied coefficients (the integer tag is embedded in / recovered from a value of that type)
VTYPES = ['int', 'int', 'int', 'float', 'frac', 'npfloat', 'sympyint', 'symbol', 'str', 'array']


def run(ctx):
    rng, q = ctx.rng, ctx.quick
    r = ctx.mc('mc/MC_Algebra.tla', 'mc/MC_Algebra_quick.cfg' if q else 'mc/MC_Algebra_thorough.cfg',
               'AlgebraModel: spelling parity (SpellingRefinement), canonical order, every enumerated configuration')
    if not r['ok']:
        ctx.report(f"AlgebraModel violates {r['violated']}", {'kind': 'spec', 'violated': ','.join(r['violated'])}, {'tail': r['out'][-2000:]})
    r = ctx.mc('mc/MC_Construct.tla', 'mc/MC_Construct_fixed.cfg', 'ConstructModel: the transcribed MultiVector.__new__ meets the construction contract for every input of the bounded space (incl. inconsistent inputs raising)')
    if not r['ok']:
        ctx.report(f"ConstructModel violates {r['violated']}", {'kind': 'spec', 'violated': ','.join(r['violated'])}, {'tail': r['out'][-2000:]})
    rc = ctx.mc('mc/MC_Construct.tla', 'mc/MC_Construct_old.cfg', 'control: re-keying only odd permutations of keyword blades (pinned code) must be refuted')
    if not rc['violated']:
        from tlc import MachineryError
        raise MachineryError('control run of ConstructModel did not find the known counterexample')
    us = [ucfg(sig=[]), ucfg(sig=[1]), ucfg(sig=[1, 1]), ucfg(sig=[0, 1], start=0), ucfg(sig=[1, 1, 1]), ucfg(2, 0, 1), ucfg(sig=[1, 1, -1], start=2),
          named_ucfg('2DPGA'), named_ucfg('3DPGA'), ucfg(sig=[1, 1, 1, 1]), ucfg(3, 0, 1)]
    for st in (0, 1):
        us += [ucfg(sig=[1, -1], basis=b) for b in P.all_custom_bases(2, st)]
    for d, n in ((3, 6 if q else 60), (4, 3 if q else 25), (5, 1 if q else 5)):
        for _ in range(n):
            b, st = P.random_custom_basis(rng, d)
            us.append(ucfg(sig=[rng.choice((1, -1, 0)) for _ in range(d)], basis=b))
    if not q:
        us += [named_ucfg('STAP'), ucfg(sig=[1] * 5), ucfg(sig=[1] * 6)]
    jobs = []
    tdir = os.path.join(ctx.work, 'construct')
    os.makedirs(tdir, exist_ok=True)
    for i, u in enumerate(us):
        n = 40 if q else 150
        jobs.append({'u': u, 'opts': {}, 'forms': FORMS, 'n': n, 'seed': ctx.seed + i, 'out': os.path.join(tdir, f'c{i}.ndjson'), 'prefix': f'c{i}', 'vtypes': VTYPES})
        if i % 3 == 0:
            jobs.append({'u': u, 'opts': {'graded': True}, 'forms': GRADED_FORMS, 'n': n // 2, 'seed': ctx.seed + 1000 + i,
                         'out': os.path.join(tdir, f'g{i}.ndjson'), 'prefix': f'g{i}'})
    res = run_jobs(jobs)
    files = [r_['out'] for r_ in res if r_['events']]
    rej = ctx.validate('TraceConstruct.tla', 'TraceConstruct.cfg', files, header_lines=0)
    byid = {}
    for f in files:
        for line in open(f):
            ev = json.loads(line)
            byid[ev['id']] = ev
            ctx.evaluations += 1
            ctx.nontrivial.add((json.dumps(ev['u']), ev['graded'], ev['form'], json.dumps(ev['supplied'])))
    ctx.extra['attribute_reads_validated'] = sum(len(e['reads']) for e in byid.values())
    some = next(e for e in byid.values() if e['form'] == 'kwargs' and e['raised'] == '')
    ctx.sample({'u': some['u'], 'form': some['form'], 'supplied': some['supplied'], 'items': some['items'], 'reads_head': some['reads'][:8]})
    for f, (eid, clause) in rej:
        ev = byid[eid]
        # mechanism fingerprint: keyword construction with an EVEN non-canonical spelling
        fp = {'kind': 'construct', 'form': ev['form'], 'clause': clause, 'graded': ev['graded'], 'raised': ev['raised']}
        ctx.report(f"{ev['form']} construction in {ev['u']} (graded={ev['graded']}) supplied {ev['supplied']}: {clause}"
                   + (f" (raised {ev['raised']})" if ev['raised'] else ''), fp, {'event': ev, 'spec': 'TraceConstruct.tla'})
    return ctx.finish(
        rule='case = (configuration incl. custom bases and graded mode, construction form of 11 valid + 4 inconsistent kinds, key subset / order, '
             'spellings) built on a shared algebra instance and read back through every accessor with all spellings (all permutations up to grade 3); '
             'non-trivial = distinct (configuration, form, supplied pairs)',
        assumptions=['coefficients are distinct signed primes (a misplaced coefficient is visible); other value types pass through the same code unchanged',
                     'duplicate spellings of one blade in one call are outside the stated domain and are not generated', 'TLC, CommunityModules, JSON encoding'])
