"""C16 - array coefficients, sequences, callables and plain numbers broadcast right.

BroadcastModel (spec/TraceOps.tla): array-valued coefficients are functions lane -> integer and every
operator acts lane by lane; x[idx] returns, and x[idx] = v overwrites, exactly the addressed entries of
every coefficient; a number is the scalar multivector, a list/tuple operand yields the sequence of
results, a zero-argument callable is replaced by its value, and `left op right` keeps its order.
Conformance: (a) every operator on ndarray / list / tuple backed operands of broadcastable shapes: TLC
checks every lane of the result against the reference operator on the paired lanes of the operands (the
pairing is numpy's own, obtained by broadcasting position labels); (b) indexing and assignment with
int / slice / tuple / ellipsis indices: TLC checks the frame condition entry by entry; (c) numbers,
numpy scalars, lists, tuples and nested callables on either side of every infix and reflected
operator with non-commuting operands: TLC validates each resulting element against the reference."""
import os
import json
import patterns as P
from kdriver import ucfg, named_ucfg
from refmc import run_ref_mc
from drive_bcast import run_jobs
from drive_ops import lookup_event
from opscheck import describe_cfg

OPS = ['gp', 'op', 'ip', 'lc', 'rc', 'sp', 'cp', 'acp', 'rp', 'sw', 'proj', 'add', 'sub', 'neg', 'reverse', 'involute', 'conjugate',
       'hodge', 'unhodge', 'unpolarity', 'normsq', 'grade', 'pow', 'outerexp']
INFIX = ['gp', 'op', 'ip', 'rp', 'sw', 'proj', 'add', 'sub', 'div']


def run(ctx):
    run_ref_mc(ctx)
    rng, q = ctx.rng, ctx.quick
    # IndexModel: the transcribed __setitem__ meets the assignment contract for every target / index / value taken from a
    # multivector; the pinned-code rule (ndarray branch also for multivector values, finding F14) must be refuted
    r = ctx.mc('mc/MC_Index.tla', 'mc/MC_Index_fixed.cfg', 'IndexModel: __setitem__ through a multivector touches exactly the addressed entries, coefficient by coefficient '
               '(<= 3 keys x <= 4 entries, all position sequences, both containers, numbers / arrays)')
    if not r['ok']:
        ctx.report(f"IndexModel violates {r['violated']}", {'kind': 'spec', 'violated': ','.join(r['violated'])}, {'tail': r['out'][-2000:]})
    rc = ctx.mc('mc/MC_Index.tla', 'mc/MC_Index_old.cfg', 'control: numpy broadcasting of a multivector value into an ndarray container (pinned code) must be refuted')
    if not rc['violated']:
        from tlc import MachineryError
        raise MachineryError('control run MC_Index_old.cfg did not find the known counterexample')
    us = [ucfg(sig=[1, 1]), ucfg(sig=[0, 1]), ucfg(sig=[1, 1, 1]), ucfg(sig=[1, -1, 0]), named_ucfg('2DPGA'), ucfg(3, 0, 1)]
    if not q:
        us += [ucfg(sig=[1, -1]), ucfg(sig=[1, 1, -1], start=0), named_ucfg('3DPGA'), ucfg(sig=[1, 1, 1, 1])]
    jobs = []
    tdir = os.path.join(ctx.work, 'bcast')
    os.makedirs(tdir, exist_ok=True)
    for i, u in enumerate(us):
        for k in range(3 if q else 8):
            jobs.append({'u': u, 'ops': OPS, 'infix': INFIX, 'n': 40 if q else 120, 'seed': ctx.seed + 100 * i + k,
                         'out': os.path.join(tdir, f'b{i}_{k}.ndjson'), 'prefix': f'b{i}.{k}'})
    res = run_jobs(jobs)
    files = [r['out'] for r in res if r['events']]
    skipped = [s for r in res for s in r['skipped']]
    if skipped:
        ctx.notes.append(f'{len(skipped)} case(s) skipped (not encodable), e.g. {skipped[0]}')
    rej = ctx.validate('TraceOps.tla', 'TraceOps.cfg', files)
    kinds = {}
    for f in files:
        lines = list(open(f))
        header = json.loads(lines[0])
        for line in lines[1:]:
            ev = json.loads(line)
            ctx.evaluations += 1
            kinds[ev['kind']] = kinds.get(ev['kind'], 0) + 1
            if ev['kind'] == 'bcast':
                ctx.nontrivial.add(('bcast', ev['op'], json.dumps([a['keys'] for a in ev['args']]), json.dumps([a['shape'] for a in ev['args']]), ev['id']))
            elif ev['kind'] in ('getitem', 'setitem'):
                ctx.nontrivial.add((ev['kind'], ev['index'], json.dumps(ev['before']['shape']), ev['container'], ev.get('mode', '')))
            elif ev['kind'] == 'itermv':
                ctx.nontrivial.add(('itermv', json.dumps(ev['before']['keys']), json.dumps(ev['before']['shape']), ev['container']))
            else:
                ctx.nontrivial.add(('resolve', ev['op'], ev['side'], ev['operand_kind'], json.dumps([a['keys'] for a in ev['args']])))
            if ev['kind'] == 'setitem' and len(ctx.samples) < 1:
                ctx.sample(ev)
            if ev['kind'] == 'bcast' and len(ctx.samples) < 3 and len(ev['lanes']) > 1:
                ctx.sample({'op': ev['op'], 'args': ev['args'], 'res': ev['res'], 'lanes': ev['lanes']})
    ctx.extra['events_by_kind'] = kinds
    for f, (eid, clause) in rej:
        header, ev = lookup_event(f, eid)
        fp = {'kind': ev['kind'], 'clause': clause, 'op': ev.get('op', ''), 'raised': ev.get('raised', ''),
              'operand_kind': ev.get('operand_kind', ''), 'side': ev.get('side', '')}
        if ev['kind'] == 'resolve':
            what = (f"{ev['operand_kind']} on the {ev['side']} of {ev['op']} with multivector keys {[a['keys'] for a in ev['args']]} in {describe_cfg(header['u'])}: {clause}"
                    + (f" (raised {ev['raised']})" if ev['raised'] else ''))
        elif ev['kind'] == 'bcast':
            what = f"{ev['op']} on array operands keys {[a['keys'] for a in ev['args']]} shapes {[a['shape'] for a in ev['args']]} in {describe_cfg(header['u'])}: {clause}" + (f" (raised {ev['raised']})" if ev['raised'] else '')
        elif ev['kind'] == 'itermv':
            what = f"itermv / shape of keys {ev['before']['keys']} with trailing shape {ev['before']['shape']} ({ev['container']} container): {clause}" + (f" (raised {ev['raised']})" if ev['raised'] else '')
        else:
            what = f"{ev['kind']} index {ev['index']} on shape {ev['before']['shape']} ({ev['container']} container): {clause}" + (f" (raised {ev['raised']})" if ev['raised'] else '')
        ctx.report(what, fp, {'trace_header': header, 'event': ev, 'spec': 'TraceOps.tla'})
    return ctx.finish(
        rule='case = (a) operator x key patterns x container kind (ndarray, list, tuple of arrays, plain) x broadcastable trailing shapes up to rank 2; '
             '(b) index expression (int, slice, tuple, ellipsis) x shape x container x assigned form; (c) infix operator x operand kind (int, float, numpy '
             'scalar, list, tuple, nested callable) x side, non-commuting operands; non-trivial = distinct case',
        assumptions=['integer-valued arrays (exact); numpy itself supplies the lane pairing and the addressed positions (position labels), so numpy semantics is not re-implemented',
                     'views shared between DIFFERENT multivectors are not asserted either way', 'TLC, CommunityModules, JSON encoding'])
