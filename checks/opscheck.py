"""Shared machinery of the operator properties (C02-C06, C08, C13, C14): a *plan* is a list of
groups (user-level cfg, algebra options, cases); every case is replayed into the real library with
generic coefficients, and every recorded event is judged by TLC (spec/TraceOps.tla)."""
import os
import json
import hashlib

from common import Ctx, VERIF
import drive_ops
from drive_ops import run_jobs, split_cases, lookup_event


def dedupe(cases):
    seen, out = set(), []
    for c in cases:
        k = json.dumps(c, sort_keys=True, default=list)
        if k not in seen:
            seen.add(k)
            out.append(c)
    return out


def cfg_tag(u, opts):
    return hashlib.sha1(json.dumps([u, opts], sort_keys=True).encode()).hexdigest()[:10]


def describe_cfg(u):
    if u['basis']:
        return 'basis=' + ','.join('e' + ''.join('%x' % x for x in n) for n in u['basis'])
    if u['mode'] == 'sig':
        return f"signature={u['sig']} start={u['start']}"
    return f"pqr=({u['p']},{u['q']},{u['r']}) start={u['start']}"


def run_plan(ctx: Ctx, plan, shards_per_group=None, procs=16, budget=30, fingerprint=None,
             module='TraceOps.tla', cfgfile='TraceOps.cfg', subdir='ops'):
    """plan: list of dicts {u, opts, cases, fresh?}.  Returns number of events validated."""
    tdir = os.path.join(ctx.work, subdir)
    os.makedirs(tdir, exist_ok=True)
    jobs = []
    total_cases = sum(len(g['cases']) for g in plan)
    for gi, g in enumerate(plan):
        cases = dedupe([[op, [k if isinstance(k, dict) else list(k) for k in keys], list(params)] for op, keys, params in g['cases']])
        if not cases:
            continue
        # shard proportionally so that the 16 driver processes are busy
        n = shards_per_group or max(1, round(procs * 2 * len(cases) / max(total_cases, 1)))
        tag = cfg_tag(g['u'], g.get('opts', {}))
        for si, shard in enumerate(split_cases(cases, n)):
            jobs.append({'u': g['u'], 'opts': g.get('opts', {}), 'cases': shard,
                         'out': os.path.join(tdir, f'g{gi}_{tag}_{si}.ndjson'), 'prefix': f'g{gi}.{si}',
                         'fresh': g.get('fresh', False), 'budget': budget, 'extra': g.get('extra'),
                         'revisit': g.get('revisit', 0.25), 'seed': ctx.seed + gi * 131 + si, 'witness': g.get('witness', False), 'pre_u': g.get('pre_u')})
    results = run_jobs(jobs, procs)
    files = [r['out'] for r in results if r['events']]
    skipped = [s for r in results for s in r['skipped']]
    if skipped:
        ctx.notes.append(f'{len(skipped)} case(s) skipped (time budget / not encodable), e.g. {skipped[0]}')
        ctx.extra['skipped_cases'] = ctx.extra.get('skipped_cases', 0) + len(skipped)
    rejects = ctx.validate(module, cfgfile, files, procs=procs)
    # nontrivial = distinct (cfg, options, op, key patterns) with a non-zero recorded result or a raise
    for f in files:
        with open(f) as fh:
            header = json.loads(fh.readline())
            tag = cfg_tag(header['u'], header.get('opts', {}))
            for line in fh:
                ev = json.loads(line)
                ctx.evaluations += 1
                if ev['raised'] or any(c not in ([], {'n': [], 'd': [[1, []]]}) for c in ev['res']['coefs']):
                    ctx.nontrivial.add((tag, ev['op'], json.dumps([a['keys'] for a in ev['args']]), json.dumps(ev['params'])))
                if len(ctx.samples) < 4 and ev['res']['keys']:
                    ctx.sample({'cfg': describe_cfg(header['u']), 'options': header.get('opts', {}), 'event': ev})
    for f, (eid, clause) in rejects:
        header, ev = lookup_event(f, eid)
        fp = {'kind': 'op', 'op': ev['op'], 'clause': clause, 'raised': ev['raised'],
              'basis': 'custom' if header['u']['basis'] else 'default',
              'graded': bool(header.get('opts', {}).get('graded'))}
        if fingerprint:
            fp.update(fingerprint(header, ev, clause))
        what = (f"{ev['op']} on keys {[a['keys'] for a in ev['args']]} params {ev['params']} in {describe_cfg(header['u'])} "
                f"options {header.get('opts', {})}: {clause}" + (f" (raised {ev['raised']})" if ev['raised'] else ''))
        ctx.report(what, fp, {'trace_header': header, 'event': ev, 'spec': module})
    return len(files)
