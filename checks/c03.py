"""C03 - outer, inner, contraction, scalar and (anti)commutator products match their definitions.

The reference (MultivectorRef) defines each product as the grade r+s / |r-s| / s-r / r-s / 0 part
of the blade products, and 2cp = xy - yx, 2acp = xy + yx; the lemmas ip+sp = lc+rc and
cp+acp = gp are model-checked on the reference.  Every recorded event (generic coefficients)
is compared per blade with the definition."""
from opscheck import run_plan
from plans import op_plan, blade_pair_plan
from refmc import run_ref_mc

OPS = ['op', 'ip', 'lc', 'rc', 'sp', 'cp', 'acp']


def run(ctx):
    run_ref_mc(ctx)
    q = ctx.quick
    groups = op_plan(ctx, OPS, per_cfg=({2: 30, 3: 25, 4: 10, 5: 4, 6: 4, 7: 2, 8: 1} if q else None))
    # the cse=False code path (func_builder) for a few configurations
    groups += op_plan(ctx, OPS, per_cfg={2: 12, 3: 8, 4: 3} if q else {2: 80, 3: 60, 4: 20}, exhaustive2=False,
                      opts_variants=[{'cse': False}], dims=(2, 3, 4), ncfg={3: (2, 1), 4: (1, 0)})
    groups += blade_pair_plan(ctx, OPS)
    # consequences on the library's OWN recorded results (`law3` events): ip+sp = lc+rc, cp+acp = gp, 2cp = xy-yx, 2acp = xy+yx,
    # and for homogeneous operands every product is the corresponding grade part of the library's own geometric product
    import patterns as P
    from kdriver import ucfg
    from plans import config_list
    rng = ctx.rng
    for d, n in ((1, 8), (2, 30 if q else 300), (3, 24 if q else 300), (4, 10 if q else 120), (5, 3 if q else 30)):
        for u in ([ucfg(sig=s) for s in P.all_sigs(d)] if d <= 2 else config_list(ctx, d, 2 if q else 6, 1 if d <= 4 else 0)):
            cases = []
            blocks = [tuple(b) for b in P.grade_blocks(d) if len({bin(k).count('1') for k in b}) == 1]
            for i in range(n):
                if i % 2 == 0 and blocks:      # homogeneous operands (single grade each), possibly sparse and permuted
                    kx, ky = [rng.sample(list(b), rng.randint(1, min(len(b), 4))) for b in (rng.choice(blocks), rng.choice(blocks))]
                else:
                    kx, ky = P.sampled_key_tuples(rng, d, 2, max_len={1: 2, 2: 4, 3: 5, 4: 4, 5: 3}[d])
                cases.append(('law3', [list(kx), list(ky)], []))
            groups.append({'u': u, 'opts': {}, 'cases': cases, 'revisit': 0})
    from plans import mirrored_wrapper_groups
    groups += mirrored_wrapper_groups(ctx, OPS)
    run_plan(ctx, groups)
    return ctx.finish(
        rule='case = (configuration, options, operator in {op,ip,lc,rc,sp,cp,acp}, ordered key tuples of both operands) run on '
             'formal indeterminates; d<=1 every ordered key-tuple pair, d=2 all 256 canonical subset pairs per signature plus '
             'sampled storage orders (thorough: all 4225 ordered pairs), d=3..8 sampled grade-block/dense/sparse permuted patterns, '
             'default and custom bases; non-trivial = result has a non-zero coefficient polynomial',
        assumptions=['generated functions use only ring operations on their inputs', 'TLC, CommunityModules, JSON encoding, harness/generic.py'])
