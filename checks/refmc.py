"""Model-checking stage shared by the operator properties: the reference layer."""
import os
from common import VERIF


def run_ref_mc(ctx, thorough_cfg='mc/MC_Ref_thorough.cfg', quick_cfg='mc/MC_Ref_quick.cfg'):
    cfg = quick_cfg if ctx.quick else thorough_cfg
    r = ctx.mc('mc/MC_Ref.tla', cfg, 'reference layer: Clifford relations, word rewriting, lemmas of MultivectorRef')
    if not r['ok']:
        ctx.report(f"reference layer violates {r['violated']} (specification error, not a verdict on the code)",
                   {'kind': 'spec', 'violated': ','.join(r['violated'])}, {'tlc_output_tail': r['out'][-4000:]})
    r2 = ctx.mc('mc/MC_Codegen.tla', 'mc/MC_Codegen_quick.cfg' if ctx.quick else 'mc/MC_Codegen_thorough.cfg',
                'CodegenModel (the code\'s bitmask filters, sign functions, output keys, involution / hodge / polarity rules) refines MultivectorRef on all basis-blade pairs')
    if not r2['ok']:
        ctx.report(f"CodegenModel violates {r2['violated']} (specification error, not a verdict on the code)",
                   {'kind': 'spec', 'violated': ','.join(r2['violated'])}, {'tlc_output_tail': r2['out'][-4000:]})
    return r
