"""Case plans shared by the operator checks: which configurations and key patterns are replayed."""
import itertools
import patterns as P
from kdriver import ucfg, named_ucfg

BINARY_OPS = {'gp', 'op', 'ip', 'lc', 'rc', 'sp', 'cp', 'acp', 'rp', 'sw', 'proj', 'add', 'sub', 'div', 'mulinv', 'rdiv'}


def arity(op):
    return 2 if op in BINARY_OPS else 1


def case(op, rng, pick, params=None):
    keys = [pick() for _ in range(arity(op))]
    return (op, keys, params(rng) if params else [])


def config_list(ctx, d, n_default, n_custom, named=True):
    """Configurations of dimension d: default-basis signatures (all for d<=2, else (p,q,r) classes /
    samples), random admissible custom bases, the named algebras."""
    rng = ctx.rng
    sigs = P.all_sigs(d)
    if d <= 2 or n_default >= len(sigs):
        us = [ucfg(sig=s) for s in sigs]
    else:
        cls = P.sig_classes(d)
        rng.shuffle(cls)
        chosen = cls[:n_default] if n_default <= len(cls) else cls + rng.sample(sigs, n_default - len(cls))
        us = [ucfg(sig=[*s] if rng.random() < 0.5 else rng.sample(s, len(s)), start=rng.choice([None, None, 0, 1, 2])) for s in chosen]
    for _ in range(n_custom):
        b, st = P.random_custom_basis(rng, d)
        us.append(ucfg(sig=rng.choice(sigs), basis=b))
    if named:
        if d == 3:
            us.append(named_ucfg('2DPGA'))
        if d == 4:
            us.append(named_ucfg('3DPGA'))
        if d == 5:
            us.append(named_ucfg('STAP'))
    return us


def op_plan(ctx, ops, params=None, per_cfg=None, exhaustive2=True, max_len=None, opts_variants=None,
            dims=(0, 1, 2, 3, 4, 5, 6, 7), ncfg=None, ok_cfg=None):
    """Groups for `ops`.  d<=1: every ordered key tuple (pair); d=2: all canonical subsets (pairs)
    plus sampled storage orders in quick, every ordered key tuple (pair) in thorough; d>=3: grade
    blocks / dense layouts / random sparse permuted patterns (sampled).
      per_cfg  : {d: number of sampled cases per op and configuration}
      max_len  : {d: cap on stored blades per operand} (polynomial size)
      ncfg     : {d: (number of default-basis configurations, number of random custom bases)}
      ok_cfg   : predicate on user-level cfg (e.g. only non-degenerate)"""
    rng, q = ctx.rng, ctx.quick
    per_cfg = per_cfg or ({2: 60, 3: 40, 4: 16, 5: 6, 6: 3, 7: 2, 8: 1} if q else {2: 300, 3: 300, 4: 120, 5: 40, 6: 12, 7: 6, 8: 3})
    max_len = max_len or {3: 8, 4: 8, 5: 6, 6: 5, 7: 4, 8: 4}
    ncfg = ncfg or ({3: (4, 3), 4: (2, 1), 5: (1, 0), 6: (1, 0), 7: (1, 0), 8: (1, 0)} if q else
                    {3: (10, 12), 4: (8, 5), 5: (4, 2), 6: (2, 1), 7: (2, 0), 8: (1, 0)})
    opts_variants = opts_variants or [{}]
    groups = []
    for d in dims:
        if d <= 2:
            us = [ucfg(sig=s) for s in P.all_sigs(d)]
            if d == 2:
                for st in (0, 1):
                    us += [ucfg(sig=rng.choice(P.all_sigs(2)), basis=b) for b in P.all_custom_bases(2, st)]
                us += [ucfg(1, 0, 1), ucfg(0, 1, 1, start=1), ucfg(2, 0, 0, start=0)]
        else:
            nd, nc = ncfg.get(d, (1, 0))
            us = config_list(ctx, d, nd, nc)
        if ok_cfg:
            us = [u for u in us if ok_cfg(u)]
        kts = list(P.all_key_tuples(d)) if d <= 2 else None
        subs = list(P.all_key_subsets_canonical(d)) if d <= 2 else None
        for ui, u in enumerate(us):
            order = None
            for oi, opts in enumerate(opts_variants):
                cases = []
                for op in ops:
                    ar = arity(op)
                    prm = (lambda: params(rng, d, op)) if params else (lambda: [])
                    if d <= 1 or (d == 2 and not q and exhaustive2 and not u['basis']):
                        for keys in itertools.product(kts, repeat=ar):
                            cases.append((op, list(keys), prm()))
                    elif d == 2:
                        if exhaustive2 and not u['basis'] and oi == 0:
                            for keys in itertools.product(subs, repeat=ar):
                                cases.append((op, list(keys), prm()))
                        for _ in range(per_cfg[2] if not u['basis'] else max(4, per_cfg[2] // 6)):
                            cases.append((op, [rng.choice(kts) for _ in range(ar)], prm()))
                    else:
                        n = per_cfg.get(d, 1)
                        pool = P.sampled_key_tuples(rng, d, n * ar, max_len=max_len.get(d))
                        for i in range(n):
                            cases.append((op, [pool[i * ar + j] for j in range(ar)], prm()))
                groups.append({'u': u, 'opts': opts, 'cases': cases})
    return groups


def blade_pair_plan(ctx, ops, dims=(3, 4, 5, 6, 7), n=None, params=None):
    """Single-blade operands: complete by (bi)linearity for the filter / sign / output-key logic.
    Exhaustive over all blade pairs where affordable, sampled above."""
    rng, q = ctx.rng, ctx.quick
    n = n or ({3: 64, 4: 256, 5: 300, 6: 400, 7: 250, 8: 100} if q else {3: 64, 4: 256, 5: 1024, 6: 4096, 7: 3000, 8: 1500})
    groups = []
    for d in dims:
        nb = 2 ** d
        for u in config_list(ctx, d, 1 if q else 3, 1 if d <= 5 else 0, named=(d <= 5)):
            cases = []
            for op in ops:
                ar = arity(op)
                total = nb ** ar
                if total <= n[d]:
                    combos = list(itertools.product(range(nb), repeat=ar))
                else:
                    combos = [tuple(rng.randrange(nb) for _ in range(ar)) for _ in range(n[d])]
                for c in combos:
                    cases.append((op, [(b,) for b in c], params(rng, d, op) if params else []))
            groups.append({'u': u, 'opts': {}, 'cases': cases, 'revisit': 0.05})
    return groups


def mirrored_wrapper_groups(ctx, ops, n=None):
    """Binary operators on ONE algebra with a wrapper set (generated functions are then called by NAME through numspace): both
    operands store the SAME blades, one of them permuted -- (K', K), then the mirrored pattern (K, K'), then (K', K') and
    (K, K) -- and every case is visited again after all were generated.  A function name that does not identify the ordered
    key tuple of EACH operand lets one pattern run the function of another."""
    import patterns as P
    from kdriver import ucfg
    rng, q = ctx.rng, ctx.quick
    groups = []
    for d, sig in ((2, [1, 1]), (3, [1, 1, -1]), (3, [0, 1, 1])) + (() if q else ((2, [1, -1]), (4, [1, 1, 1, -1]))):
        cases = []
        for _ in range(n or (3 if q else 12)):
            K = sorted(P.random_key_tuple(rng, d, 3, 2))
            Kp = list(K)
            while Kp == K:
                rng.shuffle(Kp)
            for op in ops:
                for a, b in ((Kp, K), (K, Kp), (Kp, Kp), (K, K)):
                    cases.append((op, [list(a), list(b)], []))
        groups.append({'u': ucfg(sig=sig), 'opts': {'wrapper': True}, 'cases': cases, 'revisit': 1.0})
    return groups
