"""C18 - matrix representations are faithful.

MatrixModel (spec/TraceMatrix.tla) states the properties over GIVEN sparse matrices, so TLC checks them
on the matrices the implementation produced: for every configuration (all signature orderings d<=3,
sampled d=4,5, (p,q,r) constructor, custom bases) the matrices of ALL basis blades must multiply like
the blades (sign from the Clifford reference: complete by bilinearity), M(1) = identity, the first
column is the coefficient vector in canonical order, asmatrix is linear and frommatrix inverts it.
expr_as_matrix: for linear expressions over the operator table, with symbolic, numeric and array-valued
other inputs and res_like, TLC checks y = Sem(expression)(inputs) and A . coeffs(x) = coeffs(y) as
polynomial identities.  Several algebras are used in ONE process (a cache keyed too coarsely shows)."""
import os
import json
import patterns as P
from kdriver import ucfg, named_ucfg
from drive_matrix import run_jobs


def run(ctx):
    rng, q = ctx.rng, ctx.quick
    r = ctx.mc('mc/MC_Ref.tla', 'mc/MC_Ref_quick.cfg' if q else 'mc/MC_Ref_thorough.cfg', 'reference layer (signs used by the homomorphism clause)')
    r2 = ctx.mc('mc/MC_Matrix.tla', 'mc/MC_Matrix_quick3.cfg' if q else 'mc/MC_Matrix_thorough.cfg',
                'MatrixModel: the transcribed Kronecker construction of matrix_rep is a faithful representation (homomorphism on all blade pairs, identity, first column) for every signature ordering d <= ' + ('3' if q else '4'))
    if not r2['ok']:
        ctx.report(f"MatrixModel violates {r2['violated']}", {'kind': 'spec', 'violated': ','.join(r2['violated'])}, {'tail': r2['out'][-2000:]})
    rc = ctx.mc('mc/MC_Matrix.tla', 'mc/MC_Matrix_control.cfg', 'control: representing negative generators like positive ones must be refuted')
    if not rc['violated']:
        from tlc import MachineryError
        raise MachineryError('control run of MatrixModel did not find a counterexample')
    us = []
    for d in (0, 1, 2, 3):
        us += [ucfg(sig=s) for s in P.all_sigs(d)]
    us += [ucfg(p, q_, r_) for (p, q_, r_) in P.pqr_list(3)]
    s4 = P.all_sigs(4)
    us += [ucfg(sig=s) for s in (rng.sample(s4, 10) if q else s4)]
    us += [ucfg(sig=s) for s in rng.sample(P.all_sigs(5), 2 if q else 12)]
    custom = [named_ucfg('2DPGA'), named_ucfg('3DPGA')] + [ucfg(sig=[1, -1], basis=b) for b in P.all_custom_bases(2, 1)]
    for _ in range(2 if q else 12):
        b, st = P.random_custom_basis(rng, 3)
        custom.append(ucfg(sig=[rng.choice((1, -1, 0)) for _ in range(3)], basis=b))
    us += custom
    # algebras with the same (p, q, r) but another ordering are built in ONE process (a cache keyed too coarsely shows)
    us.sort(key=lambda u: (sorted(u['sig']) if u['mode'] == 'sig' else [u['p'], u['q'], u['r']], len(u['basis'])))
    tdir = os.path.join(ctx.work, 'matrix')
    os.makedirs(tdir, exist_ok=True)
    jobs = []
    per = max(1, len(us) // 16 + 1)
    for i in range(0, len(us), per):
        jobs.append({'reps': [(f'm{i + k}', u, ctx.seed + i + k) for k, u in enumerate(us[i:i + per])],
                     'out': os.path.join(tdir, f'rep{i}.ndjson')})
    eus = [ucfg(sig=[1, 1]), ucfg(sig=[0, 1]), ucfg(sig=[1, 1, 1]), ucfg(3, 0, 1), ucfg(sig=[1, -1, 0]), ucfg(sig=[1, 1, -1], start=0), named_ucfg('2DPGA')]
    for i, u in enumerate(eus):
        for k in range(2 if q else 8):
            jobs.append({'exprs': [(f'x{i}.{k}', u, ctx.seed + 50 * i + k, 14 if q else 30)], 'out': os.path.join(tdir, f'expr{i}_{k}.ndjson')})
    res = run_jobs(jobs)
    files = [r_['out'] for r_ in res if r_['events']]
    skipped = [s for r_ in res for s in r_['skipped']]
    if skipped:
        ctx.notes.append(f'{len(skipped)} expr_as_matrix lane(s) skipped (not encodable), e.g. {skipped[0]}')
    rej = ctx.validate('TraceMatrix.tla', 'TraceMatrix.cfg', files, header_lines=0)
    byid = {}
    for f in files:
        for line in open(f):
            ev = json.loads(line)
            byid[ev['id']] = ev
            ctx.evaluations += 1
            if ev['kind'] == 'matrixrep':
                ctx.nontrivial.add(('rep', json.dumps(ev['u'])))
            else:
                ctx.nontrivial.add(('expr', json.dumps(ev['u']), ev['source'], ev['mode'], json.dumps(ev['args'][0]['keys']), json.dumps(ev['x']['keys']), ev['reslike']))
    ex = next((e for e in byid.values() if e['kind'] == 'exprmat' and e['A'] and e['mode'] == 'symbolic'), None)
    if ex:
        ctx.sample({'expression': ex['source'], 'R_keys': ex['args'][0]['keys'], 'x_keys': ex['x']['keys'], 'A': ex['A'], 'y': ex['y']})
    rp = next((e for e in byid.values() if e['kind'] == 'matrixrep' and len(e['blades']) == 4), None)
    if rp:
        ctx.sample({'u': rp['u'], 'blade_matrices': rp['blades']})
    for f, (eid, clause) in rej:
        ev = byid[eid]
        if clause.startswith('MACHINERY'):
            from tlc import MachineryError
            raise MachineryError(f'{eid}: {clause}')
        fp = {'kind': ev['kind'], 'clause': clause, 'basis': 'custom' if ev['u']['basis'] else 'default', 'raised': ev['raised']}
        fp['d0'] = (len(ev['u']['sig']) if ev['u']['mode'] == 'sig' else ev['u']['p'] + ev['u']['q'] + ev['u']['r']) == 0
        if ev['kind'] == 'exprmat':
            fp['mode'] = ev['mode']
            what = f"expr_as_matrix({ev['source']}) with {ev['mode']} R keys {ev['args'][0]['keys']}, x keys {ev['x']['keys']}, res_like={ev['likekeys'] if ev['reslike'] else None} in {ev['u']}: {clause}" + (f" (raised {ev['raised']})" if ev['raised'] else '')
        else:
            what = f"asmatrix in {ev['u']}: {clause}" + (f" (raised {ev['raised']})" if ev['raised'] else '')
        ctx.report(what, fp, {'event_id': eid, 'u': ev['u'], 'clause': clause, 'spec': 'TraceMatrix.tla', 'event': ev if ev['kind'] == 'exprmat' else {'u': ev['u']}})
    return ctx.finish(
        rule='case = (configuration -> matrices of all basis blades + 3 random multivectors) for all signature orderings d<=3, sampled d=4,5, (p,q,r) forms, '
             'custom bases; and (configuration, linear expression of 13, symbolic / numeric / array-valued R, key patterns, res_like) for expr_as_matrix; '
             'non-trivial = distinct configuration / distinct expression case',
        assumptions=['matrix entries are integers (they are +-1/0 for basis blades)', 'sympy expressions converted by sympy.Poly', 'TLC, CommunityModules, JSON encoding'])
