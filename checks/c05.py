"""C05 - duality maps invert each other and define the regressive product.

Reference: Hodge is THE linear map with E ^ hodge(E) = pss (pss = the algebra's own named top
blade), unhodge its inverse, polarity(x) = x * pss^-1 (ZeroDivisionError iff degenerate),
a & b = unhodge(hodge a ^ hodge b), dual()/undual() = polarity for r = 0, Hodge for r = 1.
Round trips, E ^ hodge(E) = pss and the rp identity are lemmas model-checked on the reference;
recorded events (generic coefficients) are compared with the definitions, including the
composite observations x.hodge().unhodge(), x ^ x.hodge(), x.dual().undual()."""
from opscheck import run_plan
from plans import op_plan, blade_pair_plan
from refmc import run_ref_mc

UN = ['hodge', 'unhodge', 'polarity', 'unpolarity', 'dual', 'undual',
      'rt_hodge', 'rt_unhodge', 'rt_polarity', 'rt_unpolarity', 'rt_dual', 'rt_undual', 'wedge_hodge']


def run(ctx):
    run_ref_mc(ctx)
    q = ctx.quick
    ml = {3: 8, 4: 8, 5: 6, 6: 5}
    groups = op_plan(ctx, UN, dims=(0, 1, 2, 3, 4, 5, 6), max_len=ml,
                     per_cfg=({2: 12, 3: 10, 4: 5, 5: 3, 6: 2} if q else {2: 60, 3: 80, 4: 40, 5: 15, 6: 6}),
                     ncfg=({3: (5, 4), 4: (3, 2), 5: (2, 1), 6: (2, 0)} if q else {3: (10, 15), 4: (10, 8), 5: (6, 3), 6: (4, 1)}))
    groups += op_plan(ctx, ['rp'], dims=(0, 1, 2, 3, 4, 5, 6), max_len=ml,
                      per_cfg=({2: 40, 3: 40, 4: 16, 5: 6, 6: 3} if q else {2: 300, 3: 400, 4: 150, 5: 40, 6: 12}),
                      ncfg=({3: (5, 4), 4: (3, 2), 5: (2, 1), 6: (2, 0)} if q else {3: (10, 15), 4: (10, 8), 5: (6, 3), 6: (4, 1)}))
    # every basis blade: E ^ hodge(E) = pss, duals of blades, and all blade pairs for the regressive product
    groups += blade_pair_plan(ctx, ['wedge_hodge', 'hodge', 'unhodge', 'dual', 'polarity'], dims=(3, 4, 5, 6))
    groups += blade_pair_plan(ctx, ['rp'], dims=(3, 4, 5, 6))
    # the same maps spelled dual(kind='hodge' | 'polarity') / undual(kind=...) (params = [1] selects that spelling)
    import patterns as P0
    from plans import config_list as _cl
    for d in (2, 3, 4):
        for u in _cl(ctx, d, 2 if q else 6, 1):
            cases = [(op, [list(P0.random_key_tuple(ctx.rng, d, 4, 1))], [1]) for op in ('hodge', 'unhodge', 'polarity', 'unpolarity') for _ in range(2 if q else 8)]
            groups.append({'u': u, 'opts': {}, 'cases': cases, 'revisit': 0})
    # the dual and the undual of ONE key pattern on ONE algebra with a wrapper set (generated functions are then called by
    # name through numspace), every case visited again after the others were generated: a dual must not be replaced by
    # its undual (they differ for odd grades in even d / where pss^2 = -1)
    import patterns as P
    from kdriver import ucfg, named_ucfg
    rng = ctx.rng
    for u, d in ((ucfg(sig=[1, 1]), 2), (ucfg(sig=[1, 1, 1]), 3), (named_ucfg('3DPGA'), 4), (ucfg(sig=[0, 1, 1, 1]), 4), (ucfg(sig=[1, 1, 1, -1]), 4)) + \
            (() if q else ((named_ucfg('2DPGA'), 3), (ucfg(sig=[1, -1]), 2), (ucfg(sig=[1, 1, 1, 1, 1, 1]), 6))):
        cases = []
        for _ in range(4 if q else 16):
            k = rng.choice([tuple(b) for b in P.grade_blocks(d) if 0 < len(b) <= 6] + [P.random_key_tuple(rng, d, 4, 1)])
            for op in ('hodge', 'unhodge', 'polarity', 'unpolarity', 'dual', 'undual'):
                cases.append((op, [list(k)], []))
        groups.append({'u': u, 'opts': {'wrapper': True}, 'cases': cases, 'revisit': 1.0})
    run_plan(ctx, groups)
    # the same maps inside functions compiled by alg.register (TapeRecorder has its own table of unary operators):
    # round trips, dual / undual in every spelling, and the regressive product written out with Hodge duals
    import programs as PR
    from regstage import run_registered
    X, Y = ('arg', 1), ('arg', 2)
    un = lambda op, x, form='method': (op, [x], [], form)       # noqa: E731
    one = [un('unhodge', un('hodge', X)), un('hodge', un('unhodge', X)), un('hodge', X), un('unhodge', X), un('dual', X), un('undual', X),
           un('undual', un('dual', X)), un('dual', un('undual', X)), un('unhodge', X, 'kind'), un('hodge', X, 'kind'), un('undual', X, 'kind'), un('dual', X, 'kind')]
    two = [un('unhodge', ('op', [un('hodge', X), un('hodge', Y)], [], 'infix')), ('rp', [X, Y], [], 'infix'), ('rp', [X, Y], [], 'method')]
    plan = []
    for u, d in ((ucfg(sig=[1, 1]), 2), (ucfg(sig=[0, 1]), 2), (named_ucfg('2DPGA'), 3), (named_ucfg('3DPGA'), 4), (ucfg(sig=[0, 1, 1, 1]), 4)) + \
            (() if q else ((ucfg(sig=[1, -1]), 2), (ucfg(sig=[1, 1, 1, -1]), 4), (ucfg(sig=[0, 1, 1, 1, 1, 1]), 6))):
        pats = lambda t, d=d: [[list(P.random_key_tuple(rng, d, 4, 1)) for _ in range(2 if PR.ops_in(t) & {'rp', 'op'} else 1)] for _ in range(2 if q else 5)] + \
            [[[b_ for b_ in range(2 ** d) if bin(b_).count('1') == g][:4] for _ in range(2 if PR.ops_in(t) & {'rp', 'op'} else 1)] for g in (1, d - 1)]     # noqa: E731
        plan.append((u, 1, one, pats))
        plan.append((u, 2, two, pats))
    run_registered(ctx, plan, 'regdual', 'registered_duality_programs')
    return ctx.finish(
        rule='case = (configuration incl. custom bases whose pseudoscalar is oriented differently, operator in {hodge, unhodge, polarity, '
             'unpolarity, dual, undual, rp, round trips, E^hodge(E)}, ordered key tuples) on formal indeterminates; all signatures d<=2 '
             '(r = 0, 1, >1), sampled d=3..6; all basis blades / blade pairs d<=4, sampled above; non-trivial = non-zero result or required raise',
        assumptions=['generated functions use only ring operations on their inputs', 'TLC, CommunityModules, JSON encoding, harness/generic.py'])
