"""Common frame of every property check: tiers, seeds, TLC stages, classification of what TLC
rejected (violation / known finding), evidence file, verdict lines and exit status.

Exit status: 0 = property held on everything explored (known findings listed), 1 = violation
(one line `VIOLATION property=<id> replay=<path>` each), 2 = machinery failure (TLC/SANY error,
harness exception, timeout) -- a machinery failure is never a verdict.
"""
import os
import sys
import json
import time
import shutil
import random
import traceback

VERIF = os.path.dirname(os.path.dirname(os.path.abspath(__file__)))
sys.path.insert(0, os.path.join(VERIF, 'harness'))

import tlc  # noqa: E402
from tlc import MachineryError  # noqa: E402

KNOWN = os.path.join(VERIF, 'known_findings.json')


def load_known(pid):
    if not os.path.exists(KNOWN):
        return []
    data = json.load(open(KNOWN))
    return [k for k in data.get('findings', []) if k['property'] == pid and k.get('status') == 'known']


class Ctx:
    def __init__(self, pid, tier=None, seed=None):
        self.pid = pid
        self.tier = tier or os.environ.get('VERIF_TIER', 'quick')
        if self.tier not in ('quick', 'thorough'):
            self.tier = 'quick'
        self.seed = int(seed if seed is not None else os.environ.get('VERIF_SEED', '20260927'))
        self.rng = random.Random(self.seed)
        # (the seeded-change runner redirects scratch and evidence so that evidence/ always describes /repo itself)
        self.work = os.path.join(os.environ.get('VERIF_WORK_DIR', os.path.join(VERIF, '.work')), pid)
        shutil.rmtree(self.work, ignore_errors=True)
        os.makedirs(self.work)
        self.t0 = time.time()
        self.states = 0
        self.transitions = 0
        self.traces = 0            # events of the real library validated by TLC
        self.evaluations = 0
        self.nontrivial = set()
        self.samples = []
        self.violations = []       # dicts: {what, replay, fingerprint}
        self.known_hits = {}       # known finding id -> count
        self.mc_runs = []
        self.notes = []
        self.extra = {}
        self.known = load_known(pid)
        self.quick = self.tier == 'quick'

    # -- stages ------------------------------------------------------------------------------
    def mc(self, module, cfg, what, workers=16, timeout=3000, extra_args=(), env=None):
        """Model-check; a violated invariant of the specification is a violation only through
        the replay the caller performs -- here it is recorded and returned."""
        r = tlc.run_mc(module, cfg, self.work, workers=workers, timeout=timeout, extra_args=extra_args, env=env)
        self.states += r['distinct']
        self.transitions += r['generated']
        self.mc_runs.append({'module': module, 'cfg': cfg, 'what': what, 'distinct_states': r['distinct'],
                             'states_generated': r['generated'], 'depth': r['depth'],
                             'violated': r['violated'], 'wall_s': round(r['wall_s'], 1)})
        return r

    def validate(self, module, cfg, files, procs=16, timeout=3000, header_lines=1):
        """Trace validation of recorded events.  Returns list of (file, [id, clause])."""
        if not files:
            return []
        results, tot = tlc.validate_traces(module, cfg, files, self.work, procs=procs, timeout=timeout, header_lines=header_lines)
        self.states += tot['states']
        self.transitions += tot['transitions']
        self.traces += tot['events']
        self.overflow_dropped = getattr(self, 'overflow_dropped', 0) + tot['overflow_dropped']
        return tot['rejects']

    # -- classification ------------------------------------------------------------------------
    def match_known(self, fp):
        for k in self.known:
            if all(fp.get(a) == b for a, b in k['match'].items()):
                return k
        return None

    def report(self, what, fingerprint, replay_obj):
        """A property-level rejection: known finding or violation."""
        k = self.match_known(fingerprint)
        if k is not None:
            self.known_hits.setdefault(k['id'], {'entry': k, 'count': 0, 'example': what})
            self.known_hits[k['id']]['count'] += 1
            return 'known'
        rdir = os.path.join(self.work, 'replay')
        os.makedirs(rdir, exist_ok=True)
        path = os.path.join(rdir, f'v{len(self.violations):04d}.json')
        with open(path, 'w') as f:
            json.dump({'property': self.pid, 'what': what, 'fingerprint': fingerprint, 'replay': replay_obj}, f, indent=1)
        self.violations.append({'what': what, 'replay': path, 'fingerprint': fingerprint})
        return 'violation'

    def sample(self, obj, limit=6):
        if len(self.samples) < limit:
            self.samples.append(obj)

    # -- end -------------------------------------------------------------------------------------
    def finish(self, level='model_checking', rule='', assumptions=(), exhaustive=False, extra=None):
        # admissible configurations the library refused to build (kdriver.filter_buildable): C01 / C14 are about exactly
        # that; for the other properties the configuration is skipped and counted
        try:
            import kdriver as _K
            refused = list(_K.REFUSED)
        except Exception:   # noqa: BLE001
            refused = []
        for r in refused:
            if self.pid in ('C01', 'C14'):
                self.report(f"admissible configuration {r['u']} options {r['opts']} is refused by the library: {r['raised']}: {r['message']}",
                            {'kind': 'refused', 'raised': r['raised']}, {'u': r['u'], 'opts': r['opts']})
        if refused:
            self.notes.append(f"{len(refused)} admissible configuration(s) refused by the library, e.g. {refused[0]['u']}: {refused[0]['raised']} {refused[0]['message'][:80]}")
            self.extra['configurations_refused_by_the_library'] = len(refused)
        wall = time.time() - self.t0
        cov = {
            'states': max(self.states, 0),
            'transitions': max(self.transitions, 0),
            'traces_validated_against_impl': self.traces,
            'evaluations': self.evaluations or self.traces,
            'distinct_nontrivial': len(self.nontrivial),
            'rule': rule,
            'samples': self.samples or [{'note': 'no sample recorded'}],
            'exhaustive': bool(exhaustive),
            'model_checking_runs': self.mc_runs,
            'known_findings_hit': {k: v['count'] for k, v in self.known_hits.items()},
            'notes': self.notes,
            'events_not_decided_tlc_32bit_overflow': getattr(self, 'overflow_dropped', 0),
        }
        cov.update(self.extra)
        if extra:
            cov.update(extra)
        ev = {'property_id': self.pid, 'tier': self.tier, 'seed': self.seed, 'level': level,
              'coverage': cov, 'assumptions': list(assumptions), 'wall_s': round(wall, 1),
              'violations': len(self.violations)}
        evdir = os.environ.get('VERIF_EVIDENCE_DIR', os.path.join(VERIF, 'evidence'))
        os.makedirs(evdir, exist_ok=True)
        with open(os.path.join(evdir, f'{self.pid}.json'), 'w') as f:
            json.dump(ev, f, indent=1, default=str)
        for kid, v in self.known_hits.items():
            print(f"KNOWN-FINDING: property={self.pid} {kid}: {v['entry']['what']} ({v['count']} matching rejection(s); e.g. {v['example']})")
        for v in self.violations[:50]:
            print(f"VIOLATION property={self.pid} replay={v['replay']}")
            print(f"  {v['what']}")
        if len(self.violations) > 50:
            print(f'  ... and {len(self.violations) - 50} more violations')
        print(f'[{self.pid}] tier={self.tier} seed={self.seed} states={self.states} transitions={self.transitions} '
              f'impl_events_validated={self.traces} nontrivial={len(self.nontrivial)} '
              f'violations={len(self.violations)} known={sum(v["count"] for v in self.known_hits.values())} wall={wall:.0f}s')
        return 1 if self.violations else 0


SPEC_OF_KIND = {'op': 'TraceOps', 'opc': 'TraceOps', 'call': 'TraceOps', 'subst': 'TraceOps', 'relabel': 'TraceOps', 'mix': 'TraceOps',
                'resolve': 'TraceOps', 'bcast': 'TraceOps', 'getitem': 'TraceOps', 'setitem': 'TraceOps', 'cert': 'TraceOps',
                'table': 'TraceAlgebra', 'reject': 'TraceAlgebra', 'construct': 'TraceConstruct', 'poly': 'TracePolynomial',
                'adj': 'TraceInverse', 'matrixrep': 'TraceMatrix', 'exprmat': 'TraceMatrix', 'widget': 'TraceGraph'}
HEADERLESS = {'TraceAlgebra', 'TraceConstruct', 'TracePolynomial', 'TraceMatrix'}


def replay(pid, path):
    """Re-judge a recorded violation: (1) operator events are RE-EXECUTED on the current tree (the event is
    regenerated from its configuration, operator and key patterns) and judged again by TLC; (2) every other
    kind of event is re-validated as recorded.  Exit 1 and a VIOLATION line if TLC still rejects."""
    obj = json.load(open(path))
    rp = obj.get('replay', {})
    ev = rp.get('event')
    work = os.path.join(VERIF, '.work', pid + '_replay')
    shutil.rmtree(work, ignore_errors=True)
    os.makedirs(work)
    tf = os.path.join(work, 'replay.ndjson')
    if not ev or 'kind' not in ev:
        print(f'replay of {path}: this violation is a whole session / table; re-run the check to re-execute it:')
        print(f'  checks/check.py {pid} --tier quick    (what: {obj.get("what", "")[:300]})')
        return 2
    spec = SPEC_OF_KIND.get(ev['kind'])
    header = rp.get('trace_header') or {'kind': 'cfg', 'u': rp.get('u') or ev.get('u')}
    reexecuted = False
    if ev['kind'] == 'op' and header.get('u') is not None and all(all(len(c) == 1 and c[0][0] == 1 and len(c[0][1]) == 1 for c in a['coefs']) if isinstance(a['coefs'], list) and all(isinstance(c, list) for c in a['coefs']) else False for a in ev['args']):
        import drive_ops
        opts = {k: v for k, v in header.get('opts', {}).items() if v not in ('', False) or k == 'cse'}
        job = {'u': header['u'], 'opts': opts, 'cases': [[ev['op'], [a['keys'] for a in ev['args']], ev['params']]],
               'out': tf, 'prefix': 'replay', 'fresh': True}
        drive_ops.run_job(job)
        reexecuted = True
    else:
        with open(tf, 'w') as f:
            if spec not in HEADERLESS:
                f.write(json.dumps(header) + '\n')
            f.write(json.dumps(ev) + '\n')
    r = tlc.run_trace(spec + '.tla', spec + '.cfg', tf, work)
    how = 're-executed on the current tree' if reexecuted else 're-validated as recorded'
    if r['rejects']:
        for eid, clause in r['rejects']:
            print(f'VIOLATION property={pid} replay={path}')
            print(f'  {how}: TLC rejects event {eid}: {clause}')
        return 1
    print(f'replay of {path}: {how}; TLC accepts the event')
    return 0


def main(pid, run):
    """Entry point of a check script: run(ctx) does the work and returns ctx.finish(...)."""
    import argparse
    ap = argparse.ArgumentParser()
    ap.add_argument('--tier', default=None)
    ap.add_argument('--seed', default=None)
    ap.add_argument('--replay', default=None)
    a = ap.parse_args()
    try:
        if a.replay:
            sys.exit(replay(pid, a.replay))
        ctx = Ctx(pid, a.tier, a.seed)
        ctx.replay = a.replay
        rc = run(ctx)
        sys.exit(rc)
    except MachineryError as e:
        print(f'MACHINERY-FAILURE property={pid}: {e}', file=sys.stderr)
        sys.exit(2)
    except SystemExit:
        raise
    except BaseException:   # noqa: BLE001
        traceback.print_exc()
        print(f'MACHINERY-FAILURE property={pid}: harness exception', file=sys.stderr)
        sys.exit(2)
