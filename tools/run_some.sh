#!/bin/sh
# Run the given checks (tier $1) in the given order: tools/run_some.sh thorough C12 C06 ...
cd "$(dirname "$0")/.."
tier=$1; shift
for id in "$@"; do
  out=$(checks/check.py $id --tier $tier 2>&1); rc=$?
  echo "$id exit=$rc $(echo "$out" | grep "^\[$id\]" | tail -1)"
  echo "$out" | grep -E "^VIOLATION|MACHINERY" | head -3
done
