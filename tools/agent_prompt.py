#!/usr/bin/env python3
"""Print the prompt given to an independent sub-agent that seeds a property-breaking change."""
import json, sys
pid = sys.argv[1]
variant = sys.argv[2] if len(sys.argv) > 2 else ''
wt = f'/tmp/wt/{pid}{variant}'
out = f'/tmp/wtout/{pid}{variant}'
p = next(json.loads(l) for l in open('/verif/properties.jsonl') if json.loads(l)['id'] == pid)
print(f"""You are helping to evaluate a verification framework for the Python library tBuLi/kingdon (a geometric/Clifford algebra library that symbolically derives sparse product formulas and generates/compiles Python functions for them, cached per key pattern).

You have your own scratch git worktree of the library at {wt} (work ONLY there; never touch /repo or /verif, and do not read anything under /verif). Python with all dependencies is /venv/bin/python. Because the package is installed in editable mode from /repo, you MUST run everything with the worktree first on the path, e.g.  `cd {wt} && PYTHONPATH={wt} /venv/bin/python demo.py`  and verify `kingdon.__file__` starts with {wt}. The test suite is run with: `cd {wt} && PYTHONPATH={wt} /venv/bin/python -m pytest -q -p no:cacheprovider --timeout=900 -x -n 4` (about 1-2 minutes; 105 tests must pass).

Here is a semantic property the library is supposed to satisfy:

  Title: {p['title']}
  Statement: {p['statement']}
  Quantified over: {p['quantifier']['text']}

Your task: make a small, realistic change to the library source (under {wt}/kingdon) that BREAKS this property while the code still imports, and the existing test suite still passes completely (all 105 tests). Think of the kind of bug a maintainer could plausibly introduce in a refactoring or "optimisation". Prefer a change that needs something SPECIFIC to manifest — a particular multi-step sequence of operations, an unusual input (particular key pattern / storage order / signature / dimension / coefficient type), a particular interleaving, or two cooperating sites that each look fine alone — NOT one that ordinary use would expose at once, and not one the existing tests catch. {('Make it different in mechanism from an obvious single sign flip: ' + variant_hint) if (variant_hint := {'b': 'target a different code path / mechanism than the most obvious one (e.g. a rarely-used branch, a cache/key-order interaction, a dimension- or signature-specific path).', 'c': 'target an interaction between two functions or a condition that only holds for unusual inputs.', 'e': 'make the change show only when TWO rarely combined features meet (for example array-valued coefficients with symbolic ones, graded mode with registered functions, a custom basis with a wrapper, numpy scalars with reflected operators, an empty or scalar-only multivector with a composite operator), each feature being fine on its own.', 'd': 'put the change in a helper / utility / shared code path that the property depends on indirectly (not in the function the property names), or make it depend on a value type (int, float, Fraction, numpy, sympy, str), an option (cse, graded, wrapper, codegen_symbolcls, simp_func) or a way of invoking the operation (infix, method, algebra-level call, registered function) that is rarely combined with this property.'}.get(variant, '')) else ''}

Deliver, in the directory {out}:
  1. patch.diff  — output of `git -C {wt} diff` (the change only; do not commit it).
  2. demo.py     — a small standalone program (uses only kingdon + stdlib/numpy/sympy) that demonstrates the violation: it must exit 0 and print PASS on the ORIGINAL code and exit 1 and print FAIL (with a short explanation) on the CHANGED code. It must import kingdon from whatever PYTHONPATH provides.
  3. notes.md    — which clause of the property is broken, what exactly is needed for the bug to manifest (inputs/sequence), and the commands you ran with their outcome (test suite result on the changed code, demo on both versions — to get the original, save your diff and run `git -C {wt} apply -R {out}/patch.diff`, then `git -C {wt} apply {out}/patch.diff` to restore it; do NOT use `git stash`: the stash is shared by all worktrees of the repository and other agents work concurrently).

Rules: the change must keep the whole existing test suite green (run it yourself on the changed code and report the pass count). Do not edit tests. Do not add new dependencies. Keep the diff small (a few lines). When finished, leave the worktree with the change applied (uncommitted) and reply with a brief summary: what you changed, why tests don't notice, and what input exposes it.""")
