#!/usr/bin/env python3
"""Seeded changes (realistic property-breaking edits produced by independent sub-agents).

  seed.py confirm <name> <property> <srcdir> [--base COMMIT]
        In a scratch worktree of /repo at COMMIT (default HEAD) apply <srcdir>/patch.diff, run the
        repository test suite (must stay 105 green), run <srcdir>/demo.py with the change (must exit 1)
        and without it (must exit 0); on success store /verif/seeded/<name>/.
  seed.py run <name> <check id> [...]
        Apply /verif/seeded/<name>/patch.diff in a scratch worktree (base recorded in meta.json, or HEAD
        if the patch applies there) and run the given checks' quick tier against it (KINGDON_SRC).
Worktrees live under /tmp and are removed afterwards."""
import json, os, re, shutil, subprocess, sys, tempfile
PY = '/venv/bin/python'

def sh(cmd, **kw):
    return subprocess.run(cmd, shell=True, capture_output=True, text=True, **kw)

def make_wt(base, patch):
    wt = tempfile.mkdtemp(prefix='kwt_', dir='/tmp')
    os.rmdir(wt)
    r = sh(f'git -C /repo worktree add -q --detach {wt} {base}')
    assert r.returncode == 0, r.stderr
    a = sh(f'git -C {wt} apply {patch}')
    return wt, a.returncode == 0

def rm_wt(wt):
    sh(f'git -C /repo worktree remove --force {wt}')
    shutil.rmtree(wt, ignore_errors=True)

def confirm(name, pid, src, base):
    head = sh('git -C /repo rev-parse --short HEAD').stdout.strip()
    base = base or head
    wt, ok = make_wt(base, f'{src}/patch.diff')
    try:
        if not ok:
            print(json.dumps({'name': name, 'confirmed': False, 'reason': f'patch does not apply to {base}'}))
            return False
        dc = subprocess.run([PY, f'{src}/demo.py'], capture_output=True, text=True, env=dict(os.environ, PYTHONPATH=wt), cwd=src, timeout=1800)
        sh(f'git -C {wt} apply -R {src}/patch.diff')
        do = subprocess.run([PY, f'{src}/demo.py'], capture_output=True, text=True, env=dict(os.environ, PYTHONPATH=wt), cwd=src, timeout=1800)
        sh(f'git -C {wt} apply {src}/patch.diff')
        t = sh(f'cd {wt} && PYTHONPATH={wt} {PY} -m pytest -q -p no:cacheprovider --timeout=900 -n 6 2>&1 | tail -3')
        m = re.search(r'(\d+) passed', t.stdout)
        passed = int(m.group(1)) if m else 0
        bad = 'failed' in t.stdout or ' error' in t.stdout.lower()
        okc = dc.returncode == 1 and do.returncode == 0 and passed == 105 and not bad
        meta = {'name': name, 'property': pid, 'base_commit': base, 'confirmed': okc,
                'demo_on_changed': {'exit': dc.returncode, 'tail': dc.stdout[-500:]},
                'demo_on_base': {'exit': do.returncode, 'tail': do.stdout[-200:]},
                'tests_on_changed': t.stdout.strip()[-200:], 'tests_passed': passed,
                'ran': ['git worktree add (scratch, /tmp) at base_commit; git apply patch.diff',
                        'PYTHONPATH=<worktree> /venv/bin/python demo.py  -> exit 1 (changed), exit 0 (stashed)',
                        'PYTHONPATH=<worktree> /venv/bin/python -m pytest -q -n 6  -> 105 passed',
                        'worktree removed']}
        print(json.dumps({k: meta[k] for k in ('name', 'confirmed', 'tests_passed', 'base_commit')}), dc.returncode, do.returncode)
        if okc:
            dst = f'/verif/seeded/{name}'
            os.makedirs(dst, exist_ok=True)
            for f in ('patch.diff', 'demo.py', 'notes.md'):
                if os.path.exists(f'{src}/{f}'):
                    shutil.copy(f'{src}/{f}', dst)
            old = json.load(open(f'{dst}/meta.json')) if os.path.exists(f'{dst}/meta.json') else {}
            old.update(meta)
            json.dump(old, open(f'{dst}/meta.json', 'w'), indent=1)
        return okc
    finally:
        rm_wt(wt)

def run(name, checks):
    d = f'/verif/seeded/{name}'
    meta = json.load(open(f'{d}/meta.json'))
    head = sh('git -C /repo rev-parse --short HEAD').stdout.strip()
    wt, ok = make_wt(head, f'{d}/patch.diff')
    base = head
    if not ok:
        rm_wt(wt)
        base = meta.get('base_commit', 'aa7d4e1')
        wt, ok = make_wt(base, f'{d}/patch.diff')
    assert ok, 'patch applies neither to HEAD nor to its base'
    res = {}
    try:
        for c in checks:
            scratch = tempfile.mkdtemp(prefix='kseed_', dir='/tmp')
            r = subprocess.run(['/verif/checks/check.py', c, '--tier', 'quick'], capture_output=True, text=True,
                               env=dict(os.environ, KINGDON_SRC=wt, VERIF_WORK_DIR=scratch + '/work', VERIF_EVIDENCE_DIR=scratch + '/evidence'), cwd='/verif')
            shutil.rmtree(scratch, ignore_errors=True)
            nv = len(re.findall(r'^VIOLATION', r.stdout, re.M))
            last = r.stdout.strip().splitlines()[-1] if r.stdout.strip() else ''
            first = next((l.strip() for l in r.stdout.splitlines() if l.startswith('  ') and ':' in l), '')
            res[c] = {'exit': r.returncode, 'violation_lines': nv, 'summary': last, 'example': first[:300]}
            print(name, 'on', base, c, 'exit', r.returncode, last)
        meta.setdefault('detection', {})
        for c, v in res.items():
            meta['detection'][c] = {'base': base, 'exit': v['exit'], 'summary': v['summary'], 'example': v['example']}
        json.dump(meta, open(f'{d}/meta.json', 'w'), indent=1)
    finally:
        rm_wt(wt)
    return base, res

if __name__ == '__main__':
    if sys.argv[1] == 'confirm':
        base = sys.argv[sys.argv.index('--base') + 1] if '--base' in sys.argv else None
        sys.exit(0 if confirm(sys.argv[2], sys.argv[3], sys.argv[4], base) else 1)
    elif sys.argv[1] == 'run':
        run(sys.argv[2], sys.argv[3:])
