#!/bin/sh
# Robustness across seeds: run every quick check with each given VERIF_SEED into scratch dirs (evidence/ untouched).
cd "$(dirname "$0")/.."
for sd in "$@"; do
  for id in C01 C02 C03 C04 C05 C06 C07 C08 C09 C10 C11 C12 C13 C14 C15 C16 C17 C18 C19 C20; do
    out=$(VERIF_WORK_DIR=/tmp/kseedsweep/work VERIF_EVIDENCE_DIR=/tmp/kseedsweep/ev VERIF_SEED=$sd checks/check.py $id --tier quick 2>&1); rc=$?
    echo "seed=$sd $id exit=$rc $(echo "$out" | grep "^\[$id\]" | tail -1 | cut -c1-160)"
    [ $rc -ne 0 ] && echo "$out" | grep -E "^VIOLATION|^  |MACHINERY" | head -6 | cut -c1-300
  done
done
rm -rf /tmp/kseedsweep
