#!/usr/bin/env python3
"""Regenerate /verif/MANIFEST.json from the table below (one source of truth for the claims)."""
import json, os
V = os.path.dirname(os.path.dirname(os.path.abspath(__file__)))
props = [json.loads(l) for l in open(f'{V}/properties.jsonl')]

TB = ('TLC 1.8 + CommunityModules; the TLA+ reference semantics (spec/CliffordRef, PolyRing, MultivectorRef, AlgebraModel) as the '
      'statement of the property; the JSON encoders and the generic-coefficient class in /verif/harness; CPython. ')
CLAIMS = {
 'C01': dict(technique='TLC model checking of AlgebraModel against CliffordRef (refinement of the transcribed sign algorithm) + TLC trace validation of the tables every TLC-enumerated configuration reports',
             text='TLC checks, for every enumerated user-level configuration, that kingdon\'s transcribed swap-count sign algorithm refines the Clifford sign defined from first principles and that the relations hold; the same configurations (TLC state dump) are built in the real library and every reported sign-table entry, Cayley string, blade product and permuted spelling is validated by TLC against the reference and against the relations themselves.',
             note=TB + 'Exhaustive: (p,q,r) with p+q+r<=4 (thorough 5), all signatures d<=3 (thorough 4), all custom bases d<=2, start indices {none,0,1,2}; sampled: custom bases d=3..5, d=5..8 incl. lazy tables.', ref='6 C01'),
 'C02': dict(technique='TLC trace validation of generic-coefficient (polynomial) events against the TLA+ reference product; TLC model checking of the reference layer and of CodegenModel (the code\'s bitmask filters / sign functions / output keys refine the reference on all basis-blade pairs)',
             text='Every (configuration, ordered key-tuple pair) compiles its own function; it is executed on formal indeterminates and TLC compares the recorded polynomial of every output blade with the bilinear extension computed in the TLA+ reference (absent = 0). A polynomial identity over Z holds for all values of any commutative ring.',
             note=TB + 'Assumes generated code uses only ring operations on its inputs. Exhaustive d<=1; d=2 all canonical subset pairs + sampled orders (thorough: all 4225 ordered pairs per signature; d=3 all 256x256 canonical subset pairs for two signatures); sampled above to d=8.', ref='6 C02'),
 'C03': dict(technique='TLC trace validation of generic-coefficient events against grade-part definitions in the TLA+ reference; lemmas ip+sp=lc+rc, cp+acp=gp model-checked',
             text='As C02 for op, ip, lc, rc, sp, cp, acp: recorded polynomials are compared by TLC with the grade r+s / |r-s| / s-r / r-s / 0 parts and with xy-yx, xy+yx of the reference; all basis-blade pairs (complete by bilinearity) up to d=4, sampled to d=7.',
             note=TB + 'Same assumptions and bounds as C02.', ref='6 C03'),
 'C04': dict(technique='TLC trace validation of generic-coefficient events against blade-wise definitions; involution / (anti)automorphism lemmas model-checked on the reference',
             text='Recorded polynomials of add, sub, neg, reverse, involute, conjugate, grade(..) are compared by TLC with the blade-wise definitions; the involution and (anti)automorphism laws are invariants of the reference checked by TLC for all signatures d<=3 (thorough 4).',
             note=TB + 'Bounds as C02; every basis blade up to d=8 for the involutions.', ref='6 C04'),
 'C05': dict(technique='TLC trace validation of generic-coefficient events against the intrinsic definition of Hodge/polarity/regressive product; round-trip lemmas model-checked',
             text='Hodge is defined in the reference as the linear map with E^hodge(E)=pss for the algebra\'s own named pseudoscalar; recorded hodge/unhodge/polarity/unpolarity/dual/undual/& results, the round trips and E^hodge(E) are compared with it by TLC; ZeroDivisionError iff degenerate; dual kind selection by the number of null generators.',
             note=TB + 'All signatures d<=2, sampled d=3..6, default and custom bases (incl. all custom bases of d=2).', ref='6 C05'),
 'C06': dict(technique='TLC trace validation: TLC computes x*y*~x, (x|y)*~y, x*~x over Z[indeterminates] and compares with the recorded polynomials',
             text='The composite operators are generated through symbolic pre-simplification; their recorded polynomials are compared per blade with the compositions computed in the reference, absent = 0, so a dropped blade must be identically zero. Run with cse on/off and both symbol classes.',
             note=TB + 'Exhaustive d<=1, d=2 canonical subset pairs (thorough all ordered pairs), sampled d=3..5 with at most 8/6/5 stored blades per operand (polynomial size).', ref='6 C06'),

 'C07': dict(technique='TLC certificate checking in the TLA+ reference algebra: two-sided inverse identities over the fraction field of Z[indeterminates] and over Q, zero-divisor witnesses for ZeroDivisionError',
             text='The specification verifies inverses instead of computing them: for a returned y TLC checks x*y = y*x = 1 in the reference algebra (generic operands: for all coefficient values with non-zero denominator; integer/Fraction operands: exactly; float results of the iterative scheme d>=6: through the nearest small-denominator fraction); a ZeroDivisionError is accepted only with a TLC-verified zero-divisor witness, which proves no inverse exists; a/b, a*b.inv(), number/x and x**-n by q*b = a resp. inverse of the n-fold product.',
             note=TB + 'harness/pyref.py only proposes witnesses. Generic: all key tuples d<=2, <=3 blades d=3, <=2 blades d=4,5. Numeric: all signatures d<=2, sampled d=3..7; events whose certificate may exceed 32-bit integers or whose floats are not within 1e-7 of a fraction with denominator <=1e5 are skipped and counted.', ref='6 C07'),
 'C08': dict(technique='TLC trace validation of storage variants (permutations, zero padding, full canonical/binary layouts) of blade-named generic operands against one reference value',
             text='In the specification operators are functions of operand denotations; every storage variant of a base case (all permutations for <=3 stored blades, zero-padded supersets up to the full 2^d layout in canonical and binary order) carries the same blade-named indeterminates and is validated by TLC against the single reference value, for 30 operators including inverse/division/outer series.',
             note=TB + 'd = 2, 3, 4; sampled base operands (<=4 stored blades before padding; <=2 for rational results).', ref='6 C08'),

 'C09': dict(technique='TLC model checking of the explicit cache/name-space/dispatch state machine (Kingdon.tla: all histories, all 2-3 thread interleavings, liveness) + TLC trace validation of instrumented real sessions (values vs reference/fresh algebra/snapshots; protocol events vs model state) incl. TLC-chosen thread schedules forced by a cooperative scheduler',
             text='Kingdon.tla models one Algebra as a state machine (one action per GIL-atomic critical section: Lookup, GenStep, GenFail, PubNames, PubCache, Dispatch, Exec, Return); TLC checks DispatchExact, CacheMonotone, FailAtomic, PublishedBeforeCached over all histories of a bounded alphabet and all interleavings of 2-3 threads, and liveness. TLC simulation behaviours (incl. thread interleavings) are replayed on one long-lived externally instrumented algebra; every call is validated by TLC against the reference value, the same call on a fresh algebra and snapshots of all operands and earlier results; every recorded cache/name/dispatch event is replayed through the model state with the invariants evaluated at each step. The model with set-keyed names refutes DispatchExact: that defect (F1) was repaired in /repo.',
             note=TB + 'CPython audit hooks and sys.monitoring; wrapper = marking decorator; schedules at the granularity of GIL-atomic dict operations; alphabet of the exhaustive model: 2-D algebra, 5 key tuples, gp/reverse/sw/div/registered/symbolic-registered; random histories beyond it (d=2,3).', ref='6 C09'),
 'C10': dict(technique='TLC model checking of GenOnce (action property of Kingdon.tla) + TLC trace validation of recorded compile / cache-store / name-publication events of histories that repeat every pattern with other values and coefficient types',
             text='GenOnce (every look-up of a cached pattern is a hit; nothing is compiled, published or stored again for a cached pattern) is an action property checked over all sequential histories of the model, incl. composite operators and failing generations; on the real library every compile() made from kingdon/codegen.py (audit hook), every cache store and name publication is replayed through the model state by TLC for histories in which each (operator, key pattern) recurs with indeterminates, int, float, Fraction, numpy and sympy coefficients.',
             note=TB + 'sys.addaudithook compile events whose caller is kingdon/codegen.py are the generation events; the first call of a symbolic multivector (custom_N) is not an operator generation.', ref='6 C10'),
 'C11': dict(technique='TLC model checking of TapeModel (transcribed TapeRecorder vs Sem(program) over a bounded program grammar; pinned-code constants refuted) with replay of the TLC-enumerated cases into register(); TLC trace validation: registered = plain function = Sem(program) = fresh algebra; name resolution at call time by Kingdon.tla/TraceKingdon DispatchExact',
             text='Programs over the README operator table (all depth-1 forms, sampled deeper trees, 1-3 arguments, plain and symbolic registration, with/without wrapper, same-named functions) run on formal indeterminates; TLC compares the registered result with the plain python function, with the semantics of the program tree computed in the reference, and with a fresh algebra; inside the listed grammar a registered function may raise only if the plain function raises.',
             note=TB + 'harness/programs.py generates the source text; programs whose plain evaluation raises on indeterminates (sqrt/norm) constrain only wrong values. Known findings F4c, F1b.', ref='6 C11'),
 'C12': dict(technique='TLC trace validation: symbolic results as rational functions compared with the reference for all values; numeric evaluations (positional/keyword call, subs, numeric operator) compared with PolyRing!REvalQ of the symbolic result',
             text='Symbolic operands (any mix of symbols and numbers, names chosen so that name order differs from creation order) are combined by 28 operators; TLC checks that the symbolic result equals the reference over the fraction field (a dropped blade must be identically zero) and that calling the result positionally (name order), by keyword, sympy substitution and the numeric operator all equal the symbolic result evaluated at the rational assignment; earlier results are called again after later ones.',
             note=TB + 'sympy.Poly/together convert expressions; floats produced by python evaluation of rational constants are compared through the nearest fraction (denominator <= 1e5, 1e-7 relative); poles are skipped.', ref='6 C12'),
 'C13': dict(technique='TLC trace validation of the same generic-coefficient cases under all 16 option vectors against one reference value; graded-mode structural clause (complete grades) evaluated by TLC with AlgebraModel!IndicesForGrades',
             text='The option vector {cse} x {graded} x {symbol class} x {wrapper} (+ pretty printing) is in the trace header and ignored by the reference; identical grade-block cases are replayed under all vectors and validated against the same value, so results coincide; graded mode: total operators must not raise and results store complete grades in canonical order. Known findings F5a/F5b (graded + degenerate metric).',
             note=TB + 'd = 2, 3, 4; 31 operators; wrapper = marking decorator.', ref='6 C13'),

 'C14': dict(technique='TLC model checking of AlgebraModel!RelabelIsIsomorphism on every enumerated configuration + TLC trace validation of relabel events (custom vs default-basis algebra), intrinsic reference for custom configurations, and mix events (rejection clause)',
             text='TLC checks that the map sending each named blade of a custom basis to (sorting parity) x the ascending blade of the default basis is an algebra isomorphism for every enumerated configuration; every operator is run in the custom algebra and, on relabelled operands, in the default algebra and TLC checks Phi(result) = result (duals up to the orientation of the custom pseudoscalar, C05); the same events are validated against the intrinsic reference; operands from algebras whose metric or basis differ must raise.',
             note=TB + 'All custom bases d=2 x 3 start indices, sampled d=3..5, 2DPGA/3DPGA/STAP; 28 operators; 17 configurations pairwise for rejection; algebras differing only in start index are not constrained (the repository tests treat them as equal). asmatrix under custom bases: C18.', ref='6 C14'),
 'C15': dict(technique='TLC model checking of ConstructModel (transcribed MultiVector.__new__ against the construction contract over a bounded input space; pinned-code rule refuted) + TLC trace validation of real constructions and accessor reads against the contract (spelling parity from AlgebraModel)',
             text='One algebra instance per configuration builds multivectors through 11 valid and 4 inconsistent construction forms and reads each back with every spelling (all permutations up to grade 3), items, containment, grade, asfullmv (both layouts), map and filter; TLC validates every event against the contract: denotation = sum parity x coefficient, nothing dropped or negated, inconsistent input raises.',
             note=TB + 'Coefficients are distinct signed primes; default and custom bases d<=5(6), graded mode.', ref='6 C15'),
 'C16': dict(technique='TLC trace validation against BroadcastModel: lane-wise operator semantics, frame condition of getitem/setitem on addressed positions, operand-kind resolution with order kept',
             text='Array-valued operands (ndarray / list / tuple containers, broadcastable shapes) are validated lane by lane against the reference operator (lane pairing = numpy broadcast of position labels); x[idx] and x[idx] = v are validated entry by entry (exactly the addressed entries change); numbers, numpy scalars, lists, tuples and nested callables on either side of every infix and reflected operator are validated element by element with non-commuting operands. Known finding F10.',
             note=TB + 'Integer-valued arrays, rank <= 2; views shared between different multivectors are not asserted.', ref='6 C16'),
 'C17': dict(technique='TLC model checking of PolynomialModel (transcribed compare/add/mul explored as a state machine: homomorphism, WellFormed preservation, exact zero tests) and of the AdditionChains loop machine (termination, valid prefix-closed chains, power_supply exponents) + TLC trace validation of every explored transition, of random walks on the real Polynomial/RationalPolynomial objects and of the chains the real code computes',
             text='The transcription of kingdon\'s polynomial algorithms is explored by TLC over reachable pairs of representations; invariants: operators are homomorphisms for the denotation in the fraction field, preserve the representation invariant, zero tests exact. Every state of the exploration is replayed into the real classes and, with random walks (pow of both signs, inv, /, numbers), validated by TLC on denotations (result, bool, == 0, ==, tosympy, operands unchanged, zero test of the difference with the canonical form).',
             note=TB + 'Variables a < a1 < b (< c < x12), coefficients ints and dyadic floats; operands of one class; representation equality is model drift only.', ref='6 C17'),
 'C18': dict(technique='TLC model checking of MatrixModel (transcribed Kronecker construction of matrix_rep: faithful for every signature ordering d<=3/4; control variant refuted) + TLC trace validation of the recorded matrices (homomorphism on all basis-blade pairs, first column, linearity, frommatrix) and of expr_as_matrix as polynomial identities A.x = y, y = Sem(expression)',
             text='For every configuration the matrices of all basis blades are recorded; TLC multiplies them (sparse) and compares with sign x matrix of the product blade for all pairs, checks identity, first column = canonical coefficient vector, linearity and frommatrix on random multivectors; expr_as_matrix results for 13 linear expressions with symbolic / numeric / array-valued inputs and res_like are checked as polynomial identities. Known findings F6b (custom bases), F6c (d=0).',
             note=TB + 'All signature orderings d<=3, sampled d=4,5; several algebras per process.', ref='6 C18'),
 'C19': dict(technique='TLC trace validation: exact clauses on generic coefficients (outer series, integer powers); certificates verified by TLC for sqrt / x**0.5 / norm / normalized (r*r = x on nearest fractions) and exp (integer evaluation of the truncated series with remainder bound)',
             text='outerexp/outersin/outercos/outertan and integer powers are decided exactly on formal indeterminates; sqrt, x**0.5, norm, normalized on squares of Study numbers / rational-norm operands by TLC-verified identities on the nearest small-denominator fractions of the float results; exp of simple elements on a grid by evaluating N! g^N sum x^k/k! in integer arithmetic within the remainder bound, for positive/zero/negative squares and float, Fraction, numpy, sympy values. Known findings F9a/F9b (numpy arrays).',
             note=TB + 'Weakest fit of the technique: irrational clauses are decided to a stated tolerance on certificates; complex coefficients are not exercised.', ref='6 C19'),
 'C20': dict(technique='TLC model checking of GraphModel (encode / front-end decode / drag write-back as a state machine over every key tuple of the 2-D algebra and 3-D layouts; the pre-repair key rule is refuted) + TLC trace validation of real widget scenes (create/drag/update)',
             text='Random subject trees (colour ints, strings, multivectors of 8 storage kinds, array-valued, lists, tuples, callables) are given to the real GraphWidget; after creation and each drag/update TLC decodes the payload by the front-end rules and compares it with every reachable multivector, checks signature/Cayley/key2idx against AlgebraModel, and that a drag overwrote exactly the addressed coefficients and callables were re-evaluated.',
             note=TB + 'Only the transport (bytes -> Float64Array) is emulated in python; default-basis algebras d<=4; small integer coefficients.', ref='6 C20'),
}
checks = []
for p in props:
    c = CLAIMS.get(p['id'])
    if not c:
        continue
    checks.append({
        'property_id': p['id'],
        'quick_cmd': f"checks/check.py {p['id']} --tier quick",
        'thorough_cmd': f"checks/check.py {p['id']} --tier thorough",
        'evidence_file': f"evidence/{p['id']}.json",
        'replay_cmd_template': f"checks/check.py {p['id']} --replay {{path}}",
        'engine': 'tlc',
        'level_claimed': {'category': 'model_checking', 'text': c['text'], 'design_ref': 'DESIGN.md section ' + c['ref']},
        'level_note': c['note'],
        'technique': c['technique'],
    })
NA = {}
m = {
 'version': 1,
 'setup_cmd': 'tools/setup.sh',
 'hooks': {'guard': 'KINGDON_VERIF',
           'enable': 'no source hooks are needed: the harness observes kingdon from outside (instrumented dict subclasses for numspace / operator_dict, sys.addaudithook compile events, sys.monitoring); kingdon is imported from $KINGDON_SRC (default /repo), so checks always see the current working tree',
           'baseline_off_cmd': 'cd /repo && /venv/bin/python -m pytest -ra -q -p no:cacheprovider --timeout=900',
           'source_commits': [], 'add_only': True},
 'engines': [{'name': 'tlc', 'path': '/opt/veriftools/tla/tla2tools.jar', 'serves_properties': [c['property_id'] for c in checks],
              'kind_free_text': 'TLC 1.8 explicit-state model checker: model checking of the TLA+ specification family in /verif/spec and trace validation of events recorded from the real library'}],
 'checks': checks,
 'not_applicable': [{'property_id': p['id'], 'reason': NA.get(p['id'], 'check under construction in this session; not claimed until its TLA+ trace specification and driver are committed')}
                    for p in props if p['id'] not in CLAIMS],
 'notes': 'All checks: cwd=/verif; VERIF_SEED / VERIF_TIER honoured; exit 0 held, 1 violation, 2 machinery failure. See DESIGN.md.',
}
json.dump(m, open(f'{V}/MANIFEST.json', 'w'), indent=1)
print('claimed', [c['property_id'] for c in checks])
