#!/usr/bin/env python3
"""Regenerate /verif/MANIFEST.json from the table below (one source of truth for the claims)."""
import json, os
V = os.path.dirname(os.path.dirname(os.path.abspath(__file__)))
props = [json.loads(l) for l in open(f'{V}/properties.jsonl')]

TB = ('TLC 1.8 + CommunityModules; the TLA+ reference semantics (spec/CliffordRef, PolyRing, MultivectorRef, AlgebraModel) as the '
      'statement of the property; the JSON encoders and the generic-coefficient class in /verif/harness; CPython. ')
CLAIMS = {
 'C01': dict(technique='TLC model checking of AlgebraModel against CliffordRef (refinement of the transcribed sign algorithm) + TLC trace validation of the tables every TLC-enumerated configuration reports',
             text='TLC checks, for every enumerated user-level configuration, that kingdon\'s transcribed swap-count sign algorithm refines the Clifford sign defined from first principles and that the relations hold; the same configurations (TLC state dump) are built in the real library and every reported sign-table entry, Cayley string, blade product and permuted spelling is validated by TLC against the reference and against the relations themselves.',
             note=TB + 'Exhaustive: (p,q,r) with p+q+r<=4 (thorough 5), all signatures d<=3 (thorough 4), all custom bases d<=2, start indices {none,0,1,2}; sampled: custom bases d=3..5, d=5..8 incl. lazy tables.', ref='6 C01'),
 'C02': dict(technique='TLC trace validation of generic-coefficient (polynomial) events against the TLA+ reference product; TLC model checking of the reference layer',
             text='Every (configuration, ordered key-tuple pair) compiles its own function; it is executed on formal indeterminates and TLC compares the recorded polynomial of every output blade with the bilinear extension computed in the TLA+ reference (absent = 0). A polynomial identity over Z holds for all values of any commutative ring.',
             note=TB + 'Assumes generated code uses only ring operations on its inputs. Exhaustive d<=1; d=2 all canonical subset pairs + sampled orders (thorough: all 4225 ordered pairs per signature; d=3 all 256x256 canonical subset pairs for two signatures); sampled above to d=8.', ref='6 C02'),
 'C03': dict(technique='TLC trace validation of generic-coefficient events against grade-part definitions in the TLA+ reference; lemmas ip+sp=lc+rc, cp+acp=gp model-checked',
             text='As C02 for op, ip, lc, rc, sp, cp, acp: recorded polynomials are compared by TLC with the grade r+s / |r-s| / s-r / r-s / 0 parts and with xy-yx, xy+yx of the reference; all basis-blade pairs (complete by bilinearity) up to d=4, sampled to d=7.',
             note=TB + 'Same assumptions and bounds as C02.', ref='6 C03'),
 'C04': dict(technique='TLC trace validation of generic-coefficient events against blade-wise definitions; involution / (anti)automorphism lemmas model-checked on the reference',
             text='Recorded polynomials of add, sub, neg, reverse, involute, conjugate, grade(..) are compared by TLC with the blade-wise definitions; the involution and (anti)automorphism laws are invariants of the reference checked by TLC for all signatures d<=3 (thorough 4).',
             note=TB + 'Bounds as C02; every basis blade up to d=8 for the involutions.', ref='6 C04'),
 'C05': dict(technique='TLC trace validation of generic-coefficient events against the intrinsic definition of Hodge/polarity/regressive product; round-trip lemmas model-checked',
             text='Hodge is defined in the reference as the linear map with E^hodge(E)=pss for the algebra\'s own named pseudoscalar; recorded hodge/unhodge/polarity/unpolarity/dual/undual/& results, the round trips and E^hodge(E) are compared with it by TLC; ZeroDivisionError iff degenerate; dual kind selection by the number of null generators.',
             note=TB + 'All signatures d<=2, sampled d=3..6, default and custom bases (incl. all custom bases of d=2).', ref='6 C05'),
 'C06': dict(technique='TLC trace validation: TLC computes x*y*~x, (x|y)*~y, x*~x over Z[indeterminates] and compares with the recorded polynomials',
             text='The composite operators are generated through symbolic pre-simplification; their recorded polynomials are compared per blade with the compositions computed in the reference, absent = 0, so a dropped blade must be identically zero. Run with cse on/off and both symbol classes.',
             note=TB + 'Exhaustive d<=1, d=2 canonical subset pairs (thorough all ordered pairs), sampled d=3..5 with at most 8/6/5 stored blades per operand (polynomial size).', ref='6 C06'),

 'C07': dict(technique='TLC certificate checking in the TLA+ reference algebra: two-sided inverse identities over the fraction field of Z[indeterminates] and over Q, zero-divisor witnesses for ZeroDivisionError',
             text='The specification verifies inverses instead of computing them: for a returned y TLC checks x*y = y*x = 1 in the reference algebra (generic operands: for all coefficient values with non-zero denominator; integer/Fraction operands: exactly; float results of the iterative scheme d>=6: through the nearest small-denominator fraction); a ZeroDivisionError is accepted only with a TLC-verified zero-divisor witness, which proves no inverse exists; a/b, a*b.inv(), number/x and x**-n by q*b = a resp. inverse of the n-fold product.',
             note=TB + 'harness/pyref.py only proposes witnesses. Generic: all key tuples d<=2, <=3 blades d=3, <=2 blades d=4,5. Numeric: all signatures d<=2, sampled d=3..7; events whose certificate may exceed 32-bit integers or whose floats are not within 1e-7 of a fraction with denominator <=1e5 are skipped and counted.', ref='6 C07'),
 'C08': dict(technique='TLC trace validation of storage variants (permutations, zero padding, full canonical/binary layouts) of blade-named generic operands against one reference value',
             text='In the specification operators are functions of operand denotations; every storage variant of a base case (all permutations for <=3 stored blades, zero-padded supersets up to the full 2^d layout in canonical and binary order) carries the same blade-named indeterminates and is validated by TLC against the single reference value, for 30 operators including inverse/division/outer series.',
             note=TB + 'd = 2, 3, 4; sampled base operands (<=4 stored blades before padding; <=2 for rational results).', ref='6 C08'),
}
checks = []
for p in props:
    c = CLAIMS.get(p['id'])
    if not c:
        continue
    checks.append({
        'property_id': p['id'],
        'quick_cmd': f"checks/check.py {p['id']} --tier quick",
        'thorough_cmd': f"checks/check.py {p['id']} --tier thorough",
        'evidence_file': f"evidence/{p['id']}.json",
        'replay_cmd_template': f"checks/check.py {p['id']} --replay {{path}}",
        'engine': 'tlc',
        'level_claimed': {'category': 'model_checking', 'text': c['text'], 'design_ref': 'DESIGN.md section ' + c['ref']},
        'level_note': c['note'],
        'technique': c['technique'],
    })
NA = {}
m = {
 'version': 1,
 'setup_cmd': 'tools/setup.sh',
 'hooks': {'guard': 'KINGDON_VERIF',
           'enable': 'no source hooks are needed: the harness observes kingdon from outside (instrumented dict subclasses for numspace / operator_dict, sys.addaudithook compile events, sys.monitoring); kingdon is imported from $KINGDON_SRC (default /repo), so checks always see the current working tree',
           'baseline_off_cmd': 'cd /repo && /venv/bin/python -m pytest -ra -q -p no:cacheprovider --timeout=900',
           'source_commits': [], 'add_only': True},
 'engines': [{'name': 'tlc', 'path': '/opt/veriftools/tla/tla2tools.jar', 'serves_properties': [c['property_id'] for c in checks],
              'kind_free_text': 'TLC 1.8 explicit-state model checker: model checking of the TLA+ specification family in /verif/spec and trace validation of events recorded from the real library'}],
 'checks': checks,
 'not_applicable': [{'property_id': p['id'], 'reason': NA.get(p['id'], 'check under construction in this session; not claimed until its TLA+ trace specification and driver are committed')}
                    for p in props if p['id'] not in CLAIMS],
 'notes': 'All checks: cwd=/verif; VERIF_SEED / VERIF_TIER honoured; exit 0 held, 1 violation, 2 machinery failure. See DESIGN.md.',
}
json.dump(m, open(f'{V}/MANIFEST.json', 'w'), indent=1)
print('claimed', [c['property_id'] for c in checks])
