#!/bin/sh
# Run every check (tier $1, default quick) on /repo's working tree and print one summary line each.
cd "$(dirname "$0")/.."
tier=${1:-quick}
for id in C01 C02 C03 C04 C05 C06 C07 C08 C09 C10 C11 C12 C13 C14 C15 C16 C17 C18 C19 C20; do
  out=$(checks/check.py $id --tier $tier 2>&1); rc=$?
  echo "$id exit=$rc $(echo "$out" | grep "^\[$id\]" | tail -1)"
  echo "$out" | grep -E "^VIOLATION|MACHINERY" | head -3
done
