#!/bin/sh
# Offline setup: nothing is installed or fetched.  Parse every specification module (SANY) so
# that a broken spec is a setup failure, not a late machinery failure.
set -e
cd "$(dirname "$0")/../spec"
for f in *.tla mc/*.tla; do
  out=$(java -cp /opt/veriftools/tla/tla2tools.jar:/opt/veriftools/tla/CommunityModules-deps.jar tla2sany.SANY "$f" 2>&1) || { echo "$out" | tail -20; echo "SANY failed on $f"; exit 1; }
  case "$out" in *"*** Errors"*|*"Fatal errors"*|*"Could not parse"*) echo "$out" | tail -20; echo "SANY failed on $f"; exit 1;; esac
done
mkdir -p ../evidence ../.work
echo "setup ok: $(ls *.tla mc/*.tla | wc -l) modules parsed"
