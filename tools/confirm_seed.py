#!/usr/bin/env python3
"""Confirm a seeded change produced by a sub-agent, in its scratch worktree:
 (1) the patch applies to a clean checkout of /repo HEAD, (2) the repository test suite passes
 with it, (3) the demonstration fails with it and passes without it.  On success the change is
 stored as /verif/seeded/<name>/ {patch.diff, demo.py, notes.md, meta.json}.
Usage: confirm_seed.py <name> <property id> [worktree] [outdir]"""
import json, os, shutil, subprocess, sys, re
name, pid = sys.argv[1], sys.argv[2]
wt = sys.argv[3] if len(sys.argv) > 3 else f'/tmp/wt/{name}'
out = sys.argv[4] if len(sys.argv) > 4 else f'/tmp/wtout/{name}'
PY = '/venv/bin/python'
def sh(cmd, **kw):
    return subprocess.run(cmd, shell=True, capture_output=True, text=True, **kw)
patch = sh(f'git -C {wt} diff').stdout
assert patch.strip(), 'no change in worktree'
open(f'{out}/patch.diff', 'w').write(patch)
# (1) applies cleanly to /repo HEAD
chk = sh(f'git -C /repo apply --check {out}/patch.diff')
applies = chk.returncode == 0
# (3) demo on changed / original
env_c = dict(os.environ, PYTHONPATH=wt)
d_changed = subprocess.run([PY, f'{out}/demo.py'], capture_output=True, text=True, env=env_c, cwd=out, timeout=900)
env_o = dict(os.environ, PYTHONPATH='/repo')
d_orig = subprocess.run([PY, f'{out}/demo.py'], capture_output=True, text=True, env=env_o, cwd=out, timeout=900)
# (2) test suite on the changed tree
t = subprocess.run(f'cd {wt} && PYTHONPATH={wt} {PY} -m pytest -q -p no:cacheprovider --timeout=900 -n 6 2>&1 | tail -3', shell=True, capture_output=True, text=True)
m = re.search(r'(\d+) passed', t.stdout)
passed = int(m.group(1)) if m else 0
failed = 'failed' in t.stdout or 'error' in t.stdout.lower()
ok = applies and d_changed.returncode == 1 and d_orig.returncode == 0 and passed == 105 and not failed
meta = {'name': name, 'property': pid, 'applies_to_repo_head': applies,
        'demo_on_changed': {'exit': d_changed.returncode, 'tail': d_changed.stdout[-400:]},
        'demo_on_original': {'exit': d_orig.returncode, 'tail': d_orig.stdout[-200:]},
        'tests_on_changed': t.stdout.strip()[-300:], 'tests_passed': passed, 'confirmed': ok,
        'ran': [f'git -C /repo apply --check patch.diff', f'PYTHONPATH=<worktree> {PY} demo.py (changed: exit 1)',
                f'PYTHONPATH=/repo {PY} demo.py (original: exit 0)', 'pytest -q -n 6 in the worktree (105 passed)']}
notes = open(f'{out}/notes.md').read() if os.path.exists(f'{out}/notes.md') else ''
meta['needs_to_manifest'] = ''
json.dump(meta, open(f'{out}/confirm.json', 'w'), indent=1)
print(json.dumps({k: meta[k] for k in ('name', 'confirmed', 'tests_passed', 'applies_to_repo_head')}), d_changed.returncode, d_orig.returncode)
if ok:
    dst = f'/verif/seeded/{name}'
    os.makedirs(dst, exist_ok=True)
    for f in ('patch.diff', 'demo.py', 'notes.md'):
        if os.path.exists(f'{out}/{f}'):
            shutil.copy(f'{out}/{f}', dst)
    json.dump(meta, open(f'{dst}/meta.json', 'w'), indent=1)
