------------------------------ MODULE GraphModel ------------------------------
(***************************************************************************)
(* The graph widget as a state machine (graph.py), implementation-shaped:   *)
(*   Create   encode every multivector of the scene: the stored values, plus *)
(*            the keys unless the multivector is "full" (KeyRule)             *)
(*   Drag     the front end reports new points (full coefficient vectors in  *)
(*            canonical order); inplacereplace writes them back: positionally*)
(*            for a "full" multivector, through key2idx otherwise             *)
(*   Update   re-encode                                                       *)
(* and the front end's decoding (graph.js toElement): with keys, values[j]   *)
(* goes to position key2idx[keys[j]]; without keys the values are read in    *)
(* canonical order.                                                            *)
(* KeyRule = "len": a multivector is treated as full when it stores 2^d      *)
(* blades (the code before the repair); "len_and_order": when its keys ARE   *)
(* the canonical order (the repaired code).  The first variant violates      *)
(* Faithful and DragExact for full multivectors stored in another order.     *)
(***************************************************************************)
EXTENDS Integers, Sequences, FiniteSets, TLC, Functions, SequencesExt

CONSTANTS D,            \* dimension: 2^D blades, canonical order Canon (a permutation of 0..2^D-1)
          Canon,
          KeyRule,
          KeyTuples,    \* the stored key tuples a scene may use
          Points        \* the coefficient vectors (in canonical order) the front end may report

VARIABLES scene, payload, last
N == 2 ^ D
PosOf(B) == (CHOOSE i \in DOMAIN Canon : Canon[i] = B) - 1
Full(mv) == IF KeyRule = "len" THEN Len(mv.keys) = N ELSE mv.keys = Canon

Den(mv) == [B \in 0 .. N - 1 |-> IF \E j \in DOMAIN mv.keys : mv.keys[j] = B
                                 THEN mv.coefs[CHOOSE j \in DOMAIN mv.keys : mv.keys[j] = B] ELSE 0]
\* encode (graph.py:36-42)
Encode(mv) == [vals |-> mv.coefs, haskeys |-> ~Full(mv), keys |-> IF Full(mv) THEN <<>> ELSE mv.keys]
\* toElement (graph.js:13-22)
Decode(p) ==
  IF p.haskeys THEN [B \in 0 .. N - 1 |-> IF \E j \in DOMAIN p.keys : p.keys[j] = B
                                          THEN p.vals[CHOOSE j \in DOMAIN p.keys : p.keys[j] = B] ELSE 0]
  ELSE [B \in 0 .. N - 1 |-> p.vals[PosOf(B) + 1]]
\* inplacereplace (graph.py:150-165)
WriteBack(mv, pt) ==
  IF Full(mv) THEN [mv EXCEPT !.coefs = [j \in DOMAIN mv.coefs |-> pt[j]]]
  ELSE [mv EXCEPT !.coefs = [j \in DOMAIN mv.coefs |-> pt[PosOf(mv.keys[j]) + 1]]]

Coefs(k) == [j \in DOMAIN k |-> 10 * j + k[j] + 1]        \* distinct, recognisable coefficients
Init == scene = <<>> /\ payload = <<>> /\ last = "init"
Create == /\ scene = <<>>
          /\ \E k1 \in KeyTuples, k2 \in KeyTuples :
                scene' = << [keys |-> k1, coefs |-> Coefs(k1)], [keys |-> k2, coefs |-> Coefs(k2)] >>
          /\ payload' = [i \in DOMAIN scene' |-> Encode(scene'[i])]
          /\ last' = "create"
Drag == /\ scene # <<>> /\ last # "drag"
        /\ \E p1 \in Points, p2 \in Points :
              scene' = << WriteBack(scene[1], p1), WriteBack(scene[2], p2) >> /\ last' = "drag"
        /\ payload' = [i \in DOMAIN scene' |-> Encode(scene'[i])]
Update == scene # <<>> /\ last = "drag" /\ payload' = [i \in DOMAIN scene |-> Encode(scene[i])] /\ UNCHANGED scene /\ last' = "update"
Next == Create \/ Drag \/ Update
Spec == Init /\ [][Next]_<<scene, payload, last>>

\* C20: the decoded payload reproduces every multivector of the scene
Faithful == \A i \in DOMAIN scene : Decode(payload[i]) = Den(scene[i])
\* a drag overwrites exactly the stored coefficients, each with the reported value of ITS blade
DragExact == [][last' = "drag" =>
                \A i \in DOMAIN scene : /\ scene'[i].keys = scene[i].keys
                                        /\ \E pt \in Points : \A j \in DOMAIN scene[i].keys :
                                              scene'[i].coefs[j] = pt[PosOf(scene[i].keys[j]) + 1]]_<<scene, payload, last>>
=============================================================================
