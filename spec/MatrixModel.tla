----------------------------- MODULE MatrixModel -----------------------------
(***************************************************************************)
(* Implementation-shaped model of matrix_rep (matrixreps.py:41-95): the      *)
(* Kronecker construction of the matrices of the basis blades.                *)
(*   S_i = Z2 (null), P2 (positive), N2 (negative) by the signature entry;    *)
(*   E_i = I2^(x i) (x) S_i (x) Ip2^(x (d-i-1));                               *)
(*   R = [Iden] + [E_i] + [products of combinations(Es, r) for r = 2..d];      *)
(*   O = rows of the first columns of the R's;  result  O R O^T.               *)
(* Matrices are functions <<i, j>> -> Int on 0..n-1.  Theorems (MC_Matrix):   *)
(* for every signature ordering, with blades in kingdon's DEFAULT canonical   *)
(* order, the result is an algebra homomorphism (products of the matrices of  *)
(* basis blades follow the Clifford sign table), the matrix of 1 is the        *)
(* identity, and the first column of the k-th matrix is the k-th unit vector   *)
(* (so asmatrix is injective and frommatrix inverts it).                        *)
(***************************************************************************)
EXTENDS CliffordRef
CONSTANT NegKind        \* "N2": the code;  "P2": a control variant (negative generators represented like positive ones) that must be refuted

Idx(n) == 0 .. n - 1
Mat(n, f(_, _)) == [p \in Idx(n) \X Idx(n) |-> f(p[1], p[2])]
I2 == Mat(2, LAMBDA i, j : IF i = j THEN 1 ELSE 0)
Ip2 == Mat(2, LAMBDA i, j : IF i = j THEN (IF i = 0 THEN 1 ELSE -1) ELSE 0)
P2 == Mat(2, LAMBDA i, j : IF i # j THEN 1 ELSE 0)
N2 == Mat(2, LAMBDA i, j : IF i = 0 /\ j = 1 THEN 1 ELSE IF i = 1 /\ j = 0 THEN -1 ELSE 0)
Z2 == Mat(2, LAMBDA i, j : IF i = 1 /\ j = 0 THEN 1 ELSE 0)
One1 == Mat(1, LAMBDA i, j : 1)

Kron(a, na, b, nb) == Mat(na * nb, LAMBDA i, j : a[<<i \div nb, j \div nb>>] * b[<<i % nb, j % nb>>])
MatMul(a, b, n) == TLCEval(Mat(n, LAMBDA i, j : FoldSet(LAMBDA k, acc : acc + a[<<i, k>>] * b[<<k, j>>], 0, Idx(n))))
Transpose(a, n) == Mat(n, LAMBDA i, j : a[<<j, i>>])
ScaleM(s, a, n) == Mat(n, LAMBDA i, j : s * a[<<i, j>>])

RECURSIVE KronSeq(_)
\* reduce(np.kron, mats, 1): <<matrix, size>>
KronSeq(ms) == IF ms = <<>> THEN <<One1, 1>>
               ELSE LET r == KronSeq(SubSeq(ms, 1, Len(ms) - 1))
                        last == ms[Len(ms)] IN <<TLCEval(Kron(r[1], r[2], last, 2)), r[2] * 2>>

SigMat(s) == IF s = 0 THEN Z2 ELSE IF s = 1 THEN P2 ELSE (IF NegKind = "N2" THEN N2 ELSE P2)
\* E for generator position i (0-based) of signature sig (sequence)
EGen(sig, i) ==
  LET d == Len(sig) IN
  KronSeq([k \in 1 .. d |-> IF k - 1 < i THEN I2 ELSE IF k - 1 = i THEN SigMat(sig[i + 1]) ELSE Ip2])[1]

\* combinations(range(d), r) in lexicographic order, as sequences
RECURSIVE Combs(_, _, _)
Combs(lo, hi, r) == IF r = 0 THEN << <<>> >> ELSE IF lo > hi THEN <<>>
                    ELSE [i \in 1 .. Len(Combs(lo + 1, hi, r - 1)) |-> <<lo>> \o Combs(lo + 1, hi, r - 1)[i]] \o Combs(lo + 1, hi, r)

RECURSIVE ProdOf(_, _, _)
ProdOf(Es, comb, n) == IF Len(comb) = 1 THEN Es[comb[1] + 1] ELSE MatMul(ProdOf(Es, SubSeq(comb, 1, Len(comb) - 1), n), Es[comb[Len(comb)] + 1], n)

\* the list Rs before the similarity transform, and the blade (bitmask) each entry stands for
RawReps(sig) ==
  LET d == Len(sig)
      n == Pow2(d)
      Es == [i \in 1 .. d |-> EGen(sig, i - 1)]
      iden == Mat(n, LAMBDA i, j : IF i = j THEN 1 ELSE 0)
      combsAll == << <<>> >> \o [i \in 1 .. d |-> <<i - 1>>]
                  \o (LET F[r \in 1 .. d] == IF r = 1 THEN <<>> ELSE F[r - 1] \o Combs(0, d - 1, r) IN IF d = 0 THEN <<>> ELSE F[d])
  IN  [k \in DOMAIN combsAll |-> <<BinOf(Range(combsAll[k])), IF combsAll[k] = <<>> THEN iden ELSE ProdOf(Es, combsAll[k], n)>>]

MatrixRep(sig) ==
  LET d == Len(sig)
      n == Pow2(d)
      raw == RawReps(sig)
      O == Mat(n, LAMBDA i, j : raw[i + 1][2][<<j, 0>>])            \* row i = first column of R_i
      Ot == Transpose(O, n)
  IN  [k \in DOMAIN raw |-> <<raw[k][1], MatMul(MatMul(O, raw[k][2], n), Ot, n)>>]

\* Theorems
Faithful(sig) ==
  LET d == Len(sig)
      n == Pow2(d)
      rep == MatrixRep(sig)
      c == Compile(DefaultCfg(d, sig))
      M == [B \in Blades(d) |-> rep[CHOOSE k \in DOMAIN rep : rep[k][1] = B][2]]
      pos == [B \in Blades(d) |-> (CHOOSE k \in DOMAIN rep : rep[k][1] = B) - 1]
  IN  /\ \A k \in DOMAIN rep : rep[k][1] = c.order[k]                        \* the list is in kingdon's canonical order
      /\ M[0] = Mat(n, LAMBDA i, j : IF i = j THEN 1 ELSE 0)
      /\ \A B \in Blades(d) : \A i \in Idx(n) : M[B][<<i, 0>>] = (IF i = pos[B] THEN 1 ELSE 0)
      /\ \A A, B \in Blades(d) : MatMul(M[A], M[B], n) = ScaleM(Sgn(c, A, B), M[A ^^ B], n)
=============================================================================
