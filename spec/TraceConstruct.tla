--------------------------- MODULE TraceConstruct ---------------------------
(***************************************************************************)
(* ConstructModel + trace validation for C15: multivector construction and *)
(* coefficient access round-trip.                                            *)
(*                                                                         *)
(* The CONTRACT of construction: whatever documented form is used, the      *)
(* multivector denotes  sum  parity(spelling) * coefficient * (canonical    *)
(* blade of that spelling)  over the supplied (spelling, coefficient)       *)
(* pairs -- a permuted spelling flips the sign by the parity of the         *)
(* permutation -- and nothing else; inconsistent input must raise.           *)
(* The CONTRACT of access: attribute access with ANY spelling returns       *)
(* parity * coefficient (absent = 0); items(), containment, grade(),        *)
(* asfullmv() (canonical and binary layout), map() and filter() reflect     *)
(* exactly the denotation.                                                    *)
(*                                                                         *)
(* One event per constructed multivector:                                     *)
(*  {u, graded, form, valid, raised, supplied:[[spelling, coef]..],          *)
(*   items:{keys,coefs}, reads:[[spelling, value]..], contains:[[B,flag]..], *)
(*   grade:[[grades, keys, coefs]..], full:[[canonical?, keys, coefs]..],    *)
(*   mapped:{keys,coefs} (v -> 3v+1), filtered:[t, keys, coefs] (v > t)}     *)
(***************************************************************************)
EXTENDS AlgebraModel, Json, IOUtils

MI == INSTANCE MultivectorRef WITH
        CZero <- 0, COne <- 1, CAdd <- LAMBDA a, b : a + b, CMul <- LAMBDA a, b : a * b,
        CNeg <- LAMBDA a : 0 - a, CEq <- LAMBDA a, b : a = b, CScale <- LAMBDA k, a : k * a

Trace == ndJsonDeserialize(IOEnv.TRACE_FILE)
VARIABLE l

\* parity of a spelling relative to the canonical name of its blade
SpellParity(m, c, sp) == Orient(NameSpelling(m, sp)) * Ori(c, NameBin(m, sp))
ValidSpelling(m, sp) == /\ \A i \in DOMAIN sp : GenPos(m, sp[i]) # -1
                        /\ Cardinality(Range(sp)) = Len(sp)

\* the denotation the user asked for
Expected(m, c, supplied) ==
  [B \in Blades(m.d) |->
     FoldSet(LAMBDA i, acc : IF NameBin(m, supplied[i][1]) = B
                             THEN acc + SpellParity(m, c, supplied[i][1]) * supplied[i][2] ELSE acc,
             0, DOMAIN supplied)]

ConstructVerdict(e) ==
  LET m == UC(e.u)
      c == Compile(BitCfgM(m))
      d == m.d
      want == Expected(m, c, e.supplied)
      got == MI!FromKV(d, e.items.keys, e.items.coefs)
      stored == Range(e.items.keys)
  IN
  IF ~e.valid THEN (IF e.raised # "" THEN "ok" ELSE "inconsistent_input_produced_a_multivector")
  \* forms the library MAY refuse (graded mode: complete grades given in another order): a refusal is fine, but if a
  \* multivector is built it must reflect the supplied coefficients like any other
  ELSE IF e.raised # "" /\ "mayrefuse" \in DOMAIN e /\ e.mayrefuse THEN "ok"
  ELSE IF e.raised # "" THEN "valid_construction_raised"
  ELSE IF ~MI!StoredOK(c, e.items.keys, e.items.coefs) THEN "stored_form_not_well_formed"
  ELSE IF ~MI!SameElement(got, want) THEN "supplied_coefficient_dropped_negated_or_misplaced"
  ELSE IF e.graded /\ e.items.keys # <<>> /\ e.items.keys # IndicesForGrades(m, {c.pop[e.items.keys[i]] : i \in DOMAIN e.items.keys})
       THEN "graded_mode_stores_incomplete_grades"
  ELSE IF \E i \in DOMAIN e.reads :
            LET sp == e.reads[i][1] IN
            IF ValidSpelling(m, sp) THEN e.reads[i][2] # SpellParity(m, c, sp) * want[NameBin(m, sp)]
            ELSE e.reads[i][2] # 0
       THEN "attribute_access_differs_from_supplied_coefficient"
  ELSE IF \E i \in DOMAIN e.contains : e.contains[i][2] # (e.contains[i][1] \in stored) THEN "containment_differs_from_stored_blades"
  ELSE IF \E i \in DOMAIN e.grade :
            LET g == e.grade[i] IN
            \/ ~MI!StoredOK(c, g[2], g[3])
            \/ Range(g[2]) # {B \in stored : c.pop[B] \in Range(g[1])}
            \/ ~MI!SameElement(MI!FromKV(d, g[2], g[3]), MI!GradePart(c, want, Range(g[1])))
       THEN "grade_selection_differs_from_stored_coefficients"
  ELSE IF \E i \in DOMAIN e.full :
            LET f == e.full[i] IN
            \/ f[2] # (IF f[1] THEN m.order ELSE [k \in 1 .. Pow2(d) |-> k - 1])
            \/ ~MI!StoredOK(c, f[2], f[3])
            \/ ~MI!SameElement(MI!FromKV(d, f[2], f[3]), want)
       THEN "asfullmv_differs"
  ELSE IF e.mapped.keys # e.items.keys \/ e.mapped.coefs # [i \in DOMAIN e.items.coefs |-> 3 * e.items.coefs[i] + 1]
       THEN "map_differs"
  ELSE IF LET t == e.filtered[1]
              keep == SelectSeq([i \in DOMAIN e.items.keys |-> <<e.items.keys[i], e.items.coefs[i]>>], LAMBDA p : p[2] > t)
          IN  e.filtered[2] # [i \in DOMAIN keep |-> keep[i][1]] \/ e.filtered[3] # [i \in DOMAIN keep |-> keep[i][2]]
       THEN "filter_differs"
  ELSE "ok"

Verdict(e) == IF e.kind = "construct" THEN ConstructVerdict(e) ELSE "unknown_event_kind"

Init == l = 1
Next == /\ l <= Len(Trace)
        /\ LET v == Verdict(Trace[l]) IN IF v = "ok" THEN TRUE ELSE PrintT(<<"REJECT", Trace[l].id, v>>)
        /\ l' = l + 1
Spec == Init /\ [][Next]_l
=============================================================================
