--------------------------- MODULE MultivectorRef ---------------------------
(***************************************************************************)
(* Reference semantics of multivectors and of every operator kingdon       *)
(* offers, written from the property statements (definitions of geometric  *)
(* algebra), not from the code.                                             *)
(*                                                                         *)
(* A multivector DENOTATION is a total function  Blades(d) -> coefficient. *)
(* The coefficient ring is a parameter of the module (integers, Z[v...],   *)
(* or its field of fractions), so that one set of definitions serves the   *)
(* numeric and the generic-coefficient (all values at once) instances.      *)
(***************************************************************************)
EXTENDS CliffordRef

\* Every operator below takes a COMPILED configuration c (CliffordRef!Compile).

CONSTANTS CZero, COne, CAdd(_, _), CMul(_, _), CNeg(_), CEq(_, _), CScale(_, _)

CSub(a, b) == CAdd(a, CNeg(b))
CSumSet(S, f(_)) == FoldSet(LAMBDA x, acc : CAdd(f(x), acc), CZero, S)
CSigned(s, a) == IF s = 1 THEN a ELSE IF s = -1 THEN CNeg(a) ELSE CZero

MVZero(d) == [B \in Blades(d) |-> CZero]
MVScalar(d, a) == [B \in Blades(d) |-> IF B = 0 THEN a ELSE CZero]
MVBlade(d, E) == [B \in Blades(d) |-> IF B = E THEN COne ELSE CZero]
MVOne(d) == MVBlade(d, 0)

\* stored form (ordered keys, coefficient sequence) -> denotation; repeated keys add up
FromKV(d, keys, coefs) ==
  [B \in Blades(d) |-> CSumSet({i \in DOMAIN keys : keys[i] = B}, LAMBDA i : coefs[i])]

Supp(x) == {B \in DOMAIN x : ~CEq(x[B], CZero)}
SameElement(x, y) == \A B \in DOMAIN x : CEq(x[B], y[B])
IsZeroMV(x) == Supp(x) = {}
Grades(c, x) == {c.pop[B] : B \in Supp(x)}

(***************************************************************************)
(* Linear structure.                                                        *)
(***************************************************************************)
Add(x, y) == [B \in DOMAIN x |-> CAdd(x[B], y[B])]
Sub(x, y) == [B \in DOMAIN x |-> CSub(x[B], y[B])]
Neg(x) == [B \in DOMAIN x |-> CNeg(x[B])]
Scale(k, x) == [B \in DOMAIN x |-> CScale(k, x[B])]
SMul(a, x) == [B \in DOMAIN x |-> CMul(a, x[B])]
GradePart(c, x, gs) == [B \in DOMAIN x |-> IF c.pop[B] \in gs THEN x[B] ELSE CZero]

(***************************************************************************)
(* Products: bilinear extensions of the product of named blades, possibly  *)
(* restricted to the blade pairs whose product has a prescribed grade.      *)
(*   keep(r, s, t): r, s the grades of the two blades, t that of e_A e_B.   *)
(***************************************************************************)
Product(c, x, y, keep(_, _, _)) ==
  \* the operands are forced to explicit functions once (TLCEval): TLC evaluates a function constructor lazily at every
  \* application, which makes nested products exponential in the nesting depth
  LET d == c.d
      xv == TLCEval(x)
      yv == TLCEval(y)
      SX == Supp(xv)
      SY == Supp(yv)
      term(A, K) == LET B == BXor(d, A, K) IN
                    IF B \in SY /\ keep(c.pop[A], c.pop[B], c.pop[K])
                    THEN CSigned(Sgn(c, A, B), CMul(xv[A], yv[B])) ELSE CZero
  IN  [K \in Blades(d) |-> CSumSet(SX, LAMBDA A : term(A, K))]

Abs(n) == IF n < 0 THEN 0 - n ELSE n
GP(c, x, y) == Product(c, x, y, LAMBDA r, s, t : TRUE)
OP(c, x, y) == Product(c, x, y, LAMBDA r, s, t : t = r + s)
IP(c, x, y) == Product(c, x, y, LAMBDA r, s, t : t = Abs(r - s))
LC(c, x, y) == Product(c, x, y, LAMBDA r, s, t : t = s - r)
RC(c, x, y) == Product(c, x, y, LAMBDA r, s, t : t = r - s)
SP(c, x, y) == Product(c, x, y, LAMBDA r, s, t : t = 0)
\* twice the commutator / anticommutator product (avoids 1/2)
CP2(c, x, y) == Sub(GP(c, x, y), GP(c, y, x))
ACP2(c, x, y) == Add(GP(c, x, y), GP(c, y, x))

(***************************************************************************)
(* Involutions.                                                             *)
(***************************************************************************)
RevSign(k) == Parity((k * (k - 1)) \div 2)
InvSign(k) == Parity(k)
ConjSign(k) == Parity((k * (k + 1)) \div 2)
MVReverse(c, x) == [B \in DOMAIN x |-> CSigned(RevSign(c.pop[B]), x[B])]
MVInvolute(c, x) == [B \in DOMAIN x |-> CSigned(InvSign(c.pop[B]), x[B])]
MVConjugate(c, x) == [B \in DOMAIN x |-> CSigned(ConjSign(c.pop[B]), x[B])]

(***************************************************************************)
(* Duality.  The pseudoscalar is the NAMED top blade of the configuration, *)
(* so custom orientations are intrinsic.  Hodge is THE linear map with     *)
(*    N_E ^ Hodge(N_E) = N_pss   for every basis blade,                     *)
(* i.e. Hodge(N_E) = s * N_(E^c) with s * sign(N_E ^ N_(E^c)) = 1.           *)
(***************************************************************************)
HodgeSign(c, E) == Sgn(c, E, Compl(c.d, E))        \* disjoint blades: never 0
UnhodgeSign(c, F) == Sgn(c, Compl(c.d, F), F)       \* Unhodge(N_F) = t N_(F^c), Hodge(that) = N_F
Hodge(c, x) == [B \in DOMAIN x |-> CSigned(HodgeSign(c, Compl(c.d, B)), x[Compl(c.d, B)])]
Unhodge(c, x) == [B \in DOMAIN x |-> CSigned(UnhodgeSign(c, Compl(c.d, B)), x[Compl(c.d, B)])]

PssSquare(c) == Sgn(c, Pss(c.d), Pss(c.d))
Degenerate(c) == \E j \in 1 .. c.d : c.sig[j] = 0
MVPss(c) == MVBlade(c.d, Pss(c.d))
\* x * pss^-1  (pss^-1 = pss / pss^2, defined iff pss^2 # 0)
Polarity(c, x) == IF PssSquare(c) = -1 THEN Neg(GP(c, x, MVPss(c))) ELSE GP(c, x, MVPss(c))
Unpolarity(c, x) == GP(c, x, MVPss(c))

RP(c, x, y) == Unhodge(c, OP(c, Hodge(c, x), Hodge(c, y)))

(***************************************************************************)
(* Composite operators.                                                     *)
(***************************************************************************)
SW(c, x, y) == GP(c, GP(c, x, y), MVReverse(c, x))
Proj(c, x, y) == GP(c, IP(c, x, y), MVReverse(c, y))
NormSq(c, x) == GP(c, x, MVReverse(c, x))

RECURSIVE GPow(_, _, _)
GPow(c, x, n) == IF n = 0 THEN MVOne(c.d) ELSE IF n = 1 THEN x ELSE GP(c, GPow(c, x, n - 1), x)
RECURSIVE OPow(_, _, _)
OPow(c, x, n) == IF n = 0 THEN MVOne(c.d) ELSE IF n = 1 THEN x ELSE OP(c, OPow(c, x, n - 1), x)

RECURSIVE Fact(_)
Fact(n) == IF n <= 1 THEN 1 ELSE n * Fact(n - 1)
\* N! * sum_{k in ks} x^(^k) / k!   for ks \subseteq 0..N   (integer scaling instead of 1/k!)
OuterSeriesScaled(c, x, N, ks) ==
  FoldSet(LAMBDA k, acc : Add(Scale(Fact(N) \div Fact(k), OPow(c, x, k)), acc), MVZero(c.d), ks)
\* N! * sum_{k<=N} x^k / k!
ExpSeriesScaled(c, x, N) ==
  FoldSet(LAMBDA k, acc : Add(Scale(Fact(N) \div Fact(k), GPow(c, x, k)), acc), MVZero(c.d), 0 .. N)

(***************************************************************************)
(* Certificates.                                                            *)
(***************************************************************************)
IsInverse(c, x, y) == /\ SameElement(GP(c, x, y), MVOne(c.d))
                      /\ SameElement(GP(c, y, x), MVOne(c.d))
\* num / den is a two-sided inverse of x:  x * num = num * x = den * 1
IsInverseFrac(c, x, num, den) ==
  /\ ~CEq(den, CZero)
  /\ SameElement(GP(c, x, num), MVScalar(c.d, den))
  /\ SameElement(GP(c, num, x), MVScalar(c.d, den))
\* a non-zero w with x w = 0 (or w x = 0) proves that x has no inverse
IsZeroDivisorWitness(c, x, w) ==
  /\ ~IsZeroMV(w)
  /\ \/ IsZeroMV(GP(c, x, w)) \/ IsZeroMV(GP(c, w, x))

(***************************************************************************)
(* Operator table: the reference value of every public operator, by name.  *)
(* a = sequence of operand denotations, params = sequence of integers      *)
(* (grades for "grade", exponent for "pow").  Some results are compared    *)
(* after an integer scaling that avoids fractions: ResultScale.             *)
(***************************************************************************)
ResultScale(c, op) ==
  IF op \in {"cp", "acp"} THEN 2
  ELSE IF op \in {"outerexp", "outersin", "outercos"} THEN Fact(c.d) ELSE 1

Evens(n) == {k \in 0 .. n : k % 2 = 0}
Odds(n) == {k \in 0 .. n : k % 2 = 1}

Apply(c, op, a, params) ==
  CASE op = "gp" -> GP(c, a[1], a[2])
    [] op = "op" -> OP(c, a[1], a[2])
    [] op = "ip" -> IP(c, a[1], a[2])
    [] op = "lc" -> LC(c, a[1], a[2])
    [] op = "rc" -> RC(c, a[1], a[2])
    [] op = "sp" -> SP(c, a[1], a[2])
    [] op = "cp" -> CP2(c, a[1], a[2])
    [] op = "acp" -> ACP2(c, a[1], a[2])
    [] op = "rp" -> RP(c, a[1], a[2])
    [] op = "sw" -> SW(c, a[1], a[2])
    [] op = "proj" -> Proj(c, a[1], a[2])
    [] op = "add" -> Add(a[1], a[2])
    [] op = "sub" -> Sub(a[1], a[2])
    [] op = "neg" -> Neg(a[1])
    [] op = "reverse" -> MVReverse(c, a[1])
    [] op = "involute" -> MVInvolute(c, a[1])
    [] op = "conjugate" -> MVConjugate(c, a[1])
    [] op = "grade" -> GradePart(c, a[1], Range(params))
    [] op = "hodge" -> Hodge(c, a[1])
    [] op = "unhodge" -> Unhodge(c, a[1])
    [] op = "polarity" -> Polarity(c, a[1])
    [] op = "unpolarity" -> Unpolarity(c, a[1])
    [] op = "normsq" -> NormSq(c, a[1])
    [] op = "pow" -> GPow(c, a[1], params[1])
    [] op = "outerexp" -> OuterSeriesScaled(c, a[1], c.d, 0 .. c.d)
    [] op = "outersin" -> OuterSeriesScaled(c, a[1], c.d, Odds(c.d))
    [] op = "outercos" -> OuterSeriesScaled(c, a[1], c.d, Evens(c.d))
    [] op = "id" -> a[1]
    [] op \in {"rt_hodge", "rt_unhodge"} -> a[1]           \* unhodge(hodge x) = x = hodge(unhodge x)
    [] op = "wedge_hodge" -> OP(c, a[1], Hodge(c, a[1]))   \* = coefficient^2 * pss for a basis blade
    [] op = "wedge_sq" -> GP(c, OP(c, a[1], a[2]), OP(c, a[1], a[2]))

NullCount(c) == Cardinality({j \in 1 .. c.d : c.sig[j] = 0})
IsScaledBlade(x) == Cardinality(Supp(x)) = 1

TotalOps == {"gp", "op", "ip", "lc", "rc", "sp", "cp", "acp", "rp", "sw", "proj", "add", "sub",
             "neg", "reverse", "involute", "conjugate", "grade", "hodge", "unhodge",
             "unpolarity", "normsq", "pow", "outerexp", "outersin", "outercos", "id",
             "rt_hodge", "rt_unhodge", "wedge_hodge", "wedge_sq"}

\* stored form is well formed: keys are blades of the algebra, none repeated
StoredOK(c, keys, coefs) ==
  /\ Len(keys) = Len(coefs)
  /\ \A i \in DOMAIN keys : keys[i] \in Blades(c.d)
  /\ \A i, j \in DOMAIN keys : i # j => keys[i] # keys[j]

(***************************************************************************)
(* Verdict of one recorded operator application.  Returns "ok" or the name *)
(* of the first failing clause.                                              *)
(*   a       : operand denotations         raised : "" or exception name    *)
(*   rk, rv  : keys and coefficients of the returned multivector            *)
(***************************************************************************)
\* the blade of all null generators: if every stored blade of x contains a null generator then
\* x * NullBlade = 0, which proves that x has no inverse
NullBladeMV(c) == MVBlade(c.d, BinOf({j \in 0 .. c.d - 1 : c.sig[j + 1] = 0}))
\* w = supplied witness, or (when none is supplied) the null blade
NoInverseProved(c, x, w) ==
  \/ IsZeroMV(x)                        \* 0 has no inverse
  \/ IsZeroDivisorWitness(c, x, w)
  \/ (NullCount(c) > 0 /\ IsZeroMV(GP(c, x, NullBladeMV(c))))

OpVerdict(c, op, a, params, raised, rk, rv, w) ==
  IF op \in TotalOps /\ ~(op = "pow" /\ params[1] < 0) THEN
       IF raised # "" THEN "raised_on_total_operator"
       ELSE IF ~StoredOK(c, rk, rv) THEN "result_not_well_formed"
       ELSE IF ~SameElement(Scale(ResultScale(c, op), FromKV(c.d, rk, rv)), Apply(c, op, a, params))
            THEN "value_differs_from_definition"
       \* E ^ hodge(E) = pss for every basis blade E (with coefficient v: v*v*pss)
       ELSE IF op = "wedge_hodge" /\ IsScaledBlade(a[1]) /\
               ~SameElement(FromKV(c.d, rk, rv),
                            LET E == CHOOSE B \in Supp(a[1]) : TRUE IN SMul(CMul(a[1][E], a[1][E]), MVPss(c)))
            THEN "blade_wedge_its_hodge_dual_is_not_the_pseudoscalar"
       ELSE "ok"
  ELSE IF op = "expf" THEN
       \* x.exp(cosh = f, sinhc = g, sqrt = h) with the FORMAL functions h(s) = s, f(l) = l + 1, g(l) = 2 l - 3:
       \* the algebraic skeleton of MultiVector.exp,  x * g(h(s)) + f(h(s))  with  s = <x x>_0,  defined iff x x is a scalar
       LET xx == GP(c, a[1], a[1])
           s == xx[0]
           want == Add(SMul(CSub(CScale(2, s), CScale(3, COne)), a[1]), MVScalar(c.d, CAdd(s, COne)))
       IN  IF ~(Supp(xx) \subseteq {0}) THEN (IF raised = "NotImplementedError" THEN "ok" ELSE "exp_of_an_element_with_non_scalar_square_must_raise_NotImplementedError")
           ELSE IF raised # "" THEN "exp_raised_for_an_element_with_scalar_square"
           ELSE IF ~StoredOK(c, rk, rv) THEN "result_not_well_formed"
           ELSE IF SameElement(FromKV(c.d, rk, rv), want) THEN "ok" ELSE "exp_is_not_x_sinhc_plus_cosh_of_the_root_of_the_square"
  ELSE IF op = "polarity" THEN
       IF PssSquare(c) = 0 THEN (IF raised = "ZeroDivisionError" THEN "ok" ELSE "degenerate_polarity_must_raise_ZeroDivisionError")
       ELSE IF raised # "" THEN "polarity_raised_on_nondegenerate_metric"
       ELSE IF ~StoredOK(c, rk, rv) THEN "result_not_well_formed"
       ELSE IF SameElement(FromKV(c.d, rk, rv), Polarity(c, a[1])) THEN "ok" ELSE "value_differs_from_definition"
  ELSE IF op \in {"rt_polarity", "rt_unpolarity"} THEN
       IF PssSquare(c) = 0 THEN (IF raised = "ZeroDivisionError" THEN "ok" ELSE "degenerate_polarity_must_raise_ZeroDivisionError")
       ELSE IF raised # "" THEN "polarity_raised_on_nondegenerate_metric"
       ELSE IF ~StoredOK(c, rk, rv) THEN "result_not_well_formed"
       ELSE IF SameElement(FromKV(c.d, rk, rv), a[1]) THEN "ok" ELSE "polarity_round_trip_is_not_identity"
  ELSE IF op \in {"dual", "undual", "rt_dual", "rt_undual"} THEN
       \* polarity for non-degenerate metrics, Hodge duality when exactly one generator is null
       IF NullCount(c) > 1 THEN (IF raised # "" THEN "ok" ELSE "auto_dual_must_refuse_when_more_than_one_null_generator")
       ELSE IF raised # "" THEN "dual_raised"
       ELSE IF ~StoredOK(c, rk, rv) THEN "result_not_well_formed"
       ELSE IF SameElement(FromKV(c.d, rk, rv),
                  IF op \in {"rt_dual", "rt_undual"} THEN a[1]
                  ELSE IF NullCount(c) = 0 THEN (IF op = "dual" THEN Polarity(c, a[1]) ELSE Unpolarity(c, a[1]))
                  ELSE (IF op = "dual" THEN Hodge(c, a[1]) ELSE Unhodge(c, a[1])))
            THEN "ok" ELSE "dual_kind_or_value_differs"
  ELSE IF op = "inv" THEN
       \* an error is allowed only for operands that have no inverse (certificate: zero divisor)
       IF raised = "ZeroDivisionError" THEN (IF NoInverseProved(c, a[1], w) THEN "ok" ELSE "ZeroDivisionError_without_proof_that_no_inverse_exists")
       ELSE IF raised # "" THEN "inverse_raised_unexpected_exception"
       ELSE IF ~StoredOK(c, rk, rv) THEN "result_not_well_formed"
       ELSE IF IsInverse(c, a[1], FromKV(c.d, rk, rv)) THEN "ok" ELSE "not_a_two_sided_inverse"
  ELSE IF op = "pow" /\ params[1] < 0 THEN
       \* x ** -n is the inverse of the n-fold product
       IF raised = "ZeroDivisionError" THEN (IF NoInverseProved(c, a[1], w) THEN "ok" ELSE "ZeroDivisionError_without_proof_that_no_inverse_exists")
       ELSE IF raised # "" THEN "power_raised_unexpected_exception"
       ELSE IF ~StoredOK(c, rk, rv) THEN "result_not_well_formed"
       ELSE IF IsInverse(c, GPow(c, a[1], 0 - params[1]), FromKV(c.d, rk, rv)) THEN "ok" ELSE "negative_power_is_not_inverse_of_power"
  ELSE IF op \in {"div", "mulinv", "rdiv"} THEN
       \* a[1] / a[2] = a[1] * inverse(a[2]):  (r * a2 = a1 is implied, and with a2 invertible equivalent)
       IF raised = "ZeroDivisionError" THEN (IF NoInverseProved(c, a[2], w) THEN "ok" ELSE "ZeroDivisionError_without_proof_that_no_inverse_exists")
       ELSE IF raised # "" THEN "division_raised_unexpected_exception"
       ELSE IF ~StoredOK(c, rk, rv) THEN "result_not_well_formed"
       \* q = a1 * inverse(a2)  <=>  q * a2 = a1 and a2 invertible; invertibility is witnessed by
       \* the recorded quotient of 1 (params) or follows from q*a2 = a1 for generic a1
       ELSE IF SameElement(GP(c, FromKV(c.d, rk, rv), a[2]), a[1]) THEN "ok" ELSE "quotient_times_divisor_differs"
  ELSE IF op = "outertan" THEN
       \* outertan = outersin * inverse(outercos)  <=>  outertan * outercos = outersin
       IF raised = "ZeroDivisionError" THEN
            (IF NoInverseProved(c, OuterSeriesScaled(c, a[1], c.d, Evens(c.d)), w) THEN "ok" ELSE "ZeroDivisionError_without_proof_that_no_inverse_exists")
       ELSE IF raised # "" THEN "outertan_raised_unexpected_exception"
       ELSE IF ~StoredOK(c, rk, rv) THEN "result_not_well_formed"
       ELSE IF SameElement(GP(c, FromKV(c.d, rk, rv), OuterSeriesScaled(c, a[1], c.d, Evens(c.d))),
                           OuterSeriesScaled(c, a[1], c.d, Odds(c.d)))
            THEN "ok" ELSE "outertan_times_outercos_differs_from_outersin"
  ELSE "unknown_operator"

(***************************************************************************)
(* Programs: expression trees over the operator table (registered          *)
(* functions, C11).  A node is a record with field n:                        *)
(*   [n |-> "arg", i |-> k]                      the k-th argument           *)
(*   [n |-> "num", v |-> coefficient]            a plain number (scalar)     *)
(*   [n |-> op, c |-> <<children>>, p |-> params] an operator of Apply       *)
(* Sem(program)(args) is its value in the reference semantics.               *)
(***************************************************************************)
RECURSIVE EvalTree(_, _, _)
EvalTree(c, tree, args) ==
  IF tree.n = "arg" THEN args[tree.i]
  ELSE IF tree.n = "num" THEN MVScalar(c.d, tree.v)
  ELSE LET kids == [i \in DOMAIN tree.c |-> EvalTree(c, tree.c[i], args)]
           r == Apply(c, tree.n, kids, tree.p)
           k == ResultScale(c, tree.n)
       IN  r    \* trees are built only from operators with ResultScale 1 (see harness/programs.py)

(***************************************************************************)
(* Lemmas of the reference layer, checked on basis blades (complete by     *)
(* (bi)linearity) by MC_MultivectorRef.                                     *)
(***************************************************************************)
BasisMVs(d) == {MVBlade(d, E) : E \in Blades(d)}

LemmaIpSpLcRc(c) ==
  \A x, y \in BasisMVs(c.d) :
     SameElement(Add(IP(c, x, y), SP(c, x, y)), Add(LC(c, x, y), RC(c, x, y)))
LemmaCpAcpGp(c) ==
  \A x, y \in BasisMVs(c.d) :
     SameElement(Add(CP2(c, x, y), ACP2(c, x, y)), Scale(2, GP(c, x, y)))
LemmaInvolutions(c) ==
  \A x \in BasisMVs(c.d) :
     /\ SameElement(MVReverse(c, MVReverse(c, x)), x)
     /\ SameElement(MVInvolute(c, MVInvolute(c, x)), x)
     /\ SameElement(MVConjugate(c, MVConjugate(c, x)), x)
     /\ SameElement(MVConjugate(c, x), MVReverse(c, MVInvolute(c, x)))
LemmaAntiAutomorphisms(c) ==
  \A x, y \in BasisMVs(c.d) :
     /\ SameElement(MVReverse(c, GP(c, x, y)), GP(c, MVReverse(c, y), MVReverse(c, x)))
     /\ SameElement(MVConjugate(c, GP(c, x, y)), GP(c, MVConjugate(c, y), MVConjugate(c, x)))
     /\ SameElement(MVInvolute(c, GP(c, x, y)), GP(c, MVInvolute(c, x), MVInvolute(c, y)))
LemmaHodge(c) ==
  \A x \in BasisMVs(c.d) :
     /\ SameElement(Unhodge(c, Hodge(c, x)), x)
     /\ SameElement(Hodge(c, Unhodge(c, x)), x)
     /\ SameElement(OP(c, x, Hodge(c, x)), MVPss(c))
LemmaPolarity(c) ==
  PssSquare(c) # 0 =>
    \A x \in BasisMVs(c.d) :
       /\ SameElement(Unpolarity(c, Polarity(c, x)), x)
       /\ SameElement(Polarity(c, Unpolarity(c, x)), x)
LemmaDegenerate(c) == (PssSquare(c) = 0) <=> Degenerate(c)
LemmaRpIdentity(c) ==
  \A x \in BasisMVs(c.d) :
     /\ SameElement(RP(c, MVPss(c), x), x)
     /\ SameElement(RP(c, x, MVPss(c)), x)
RefLemmas(c) ==
  /\ LemmaIpSpLcRc(c) /\ LemmaCpAcpGp(c) /\ LemmaInvolutions(c) /\ LemmaAntiAutomorphisms(c)
  /\ LemmaHodge(c) /\ LemmaPolarity(c) /\ LemmaDegenerate(c) /\ LemmaRpIdentity(c)
=============================================================================
