---------------------------- MODULE CodegenModel ----------------------------
(***************************************************************************)
(* Implementation-shaped model of the product generators of codegen.py,    *)
(* with the code's OWN bitmask arithmetic:                                   *)
(*   codegen_product (114-138): for (kx,vx),(ky,vy): sign = sign_func;       *)
(*       if sign: key_out = keyout_func(kx,ky); if filter: skip; accumulate  *)
(*   codegen_op   filter  k_out == kx + ky                        (233-244)  *)
(*   codegen_ip   filter  k_out == abs(kx - ky)                   (184-194)  *)
(*   codegen_lc / rc / sp : diff_func = -x / x / 0                 (197-221)  *)
(*   codegen_cp / acp : filter signs[kx,ky] -/+ signs[ky,kx]       (162-181)  *)
(*   codegen_rp : keyout pss - (kx ^ ky), filter pss == kx + ky - k_out,     *)
(*                four-factor sign                                 (247-273)  *)
(*   codegen_involutions : popcount(k) % 4 in invert_grades        (477-497)  *)
(*   codegen_hodge / unhodge : key pss - k, sign of signs[k, dual] (553-562)  *)
(*   codegen_polarity / unpolarity : branch on signs[pss, pss]     (536-550)  *)
(*   do_codegen : output keys = keys that received a term, canonical order   *)
(* Refinement theorems (MC_Codegen): on every pair of basis blades -- complete*)
(* by bilinearity -- the implementation-shaped product equals the reference  *)
(* definition of MultivectorRef (grade-part definitions, xy -/+ yx, the       *)
(* intrinsic Hodge dual, unhodge(hodge a ^ hodge b)).                          *)
(***************************************************************************)
EXTENDS CliffordRef

\* integer instance of the reference
MI == INSTANCE MultivectorRef WITH
        CZero <- 0, COne <- 1, CAdd <- LAMBDA a, b : a + b, CMul <- LAMBDA a, b : a * b,
        CNeg <- LAMBDA a : 0 - a, CEq <- LAMBDA a, b : a = b, CScale <- LAMBDA k, a : k * a

AbsI(n) == IF n < 0 THEN 0 - n ELSE n
KeyPss(c) == Pow2(c.d) - 1

\* sign_func, keyout_func, filter_func of one generator; a term exists iff sign # 0 and the filter passes
ImplSignOf(c, op, kx, ky) ==
  IF op = "rp" THEN Sgn(c, kx, KeyPss(c) - kx) * Sgn(c, ky, KeyPss(c) - ky)
                    * Sgn(c, KeyPss(c) - kx, KeyPss(c) - ky)
                    * Sgn(c, KeyPss(c) - (kx ^^ ky), kx ^^ ky)
  ELSE Sgn(c, kx, ky)
ImplKeyOut(c, op, kx, ky) == IF op = "rp" THEN KeyPss(c) - (kx ^^ ky) ELSE kx ^^ ky
ImplFilter(c, op, kx, ky, ko) ==
  CASE op = "gp" -> TRUE
    [] op = "op" -> ko = kx + ky
    [] op = "ip" -> ko = AbsI(kx - ky)
    [] op = "lc" -> ko = 0 - (kx - ky)
    [] op = "rc" -> ko = kx - ky
    [] op = "sp" -> ko = 0
    [] op = "cp" -> (Sgn(c, kx, ky) - Sgn(c, ky, kx)) # 0
    [] op = "acp" -> (Sgn(c, kx, ky) + Sgn(c, ky, kx)) # 0
    [] op = "rp" -> KeyPss(c) = kx + ky - ko

\* the term codegen_product contributes for the blade pair (kx, ky): <<key_out, sign>> or <<0, 0>>
ImplTerm(c, op, kx, ky) ==
  LET s == ImplSignOf(c, op, kx, ky)
      ko == ImplKeyOut(c, op, kx, ky)
  IN  IF s # 0 /\ ImplFilter(c, op, kx, ky, ko) THEN <<ko, s>> ELSE <<0, 0>>
ImplBladeProduct(c, op, kx, ky) ==
  LET t == ImplTerm(c, op, kx, ky) IN [B \in Blades(c.d) |-> IF t[2] # 0 /\ B = t[1] THEN t[2] ELSE 0]

\* output keys of do_codegen for ordered key tuples: every key that received a term, in canonical order
ImplKeysOut(c, op, kxs, kys) ==
  LET got == {ImplTerm(c, op, kxs[i], kys[j])[1] : i \in {i \in DOMAIN kxs : \E j \in DOMAIN kys : ImplTerm(c, op, kxs[i], kys[j])[2] # 0}, j \in DOMAIN kys}
      hit == {K \in Blades(c.d) : \E i \in DOMAIN kxs, j \in DOMAIN kys : ImplTerm(c, op, kxs[i], kys[j]) [2] # 0 /\ ImplTerm(c, op, kxs[i], kys[j])[1] = K}
  IN  SelectSeq(c.order, LAMBDA K : K \in hit)

ImplInvolutionSign(kind, k, c) ==
  LET g == c.pop[k] % 4
      inv == CASE kind = "reverse" -> {2, 3} [] kind = "involute" -> {1, 3} [] kind = "conjugate" -> {1, 2}
  IN  IF g \in inv THEN -1 ELSE 1
ImplHodge(c, k, undual) == <<KeyPss(c) - k, IF (IF undual THEN Sgn(c, KeyPss(c) - k, k) ELSE Sgn(c, k, KeyPss(c) - k)) < 0 THEN -1 ELSE 1>>

(***************************************************************************)
(* Refinement theorems.                                                      *)
(***************************************************************************)
RefBladeProduct(c, op, kx, ky) ==
  LET x == MI!MVBlade(c.d, kx) y == MI!MVBlade(c.d, ky) IN
  CASE op = "gp" -> MI!GP(c, x, y) [] op = "op" -> MI!OP(c, x, y) [] op = "ip" -> MI!IP(c, x, y)
    [] op = "lc" -> MI!LC(c, x, y) [] op = "rc" -> MI!RC(c, x, y) [] op = "sp" -> MI!SP(c, x, y)
    [] op = "cp" -> MI!CP2(c, x, y) [] op = "acp" -> MI!ACP2(c, x, y) [] op = "rp" -> MI!RP(c, x, y)
ProductOps == {"gp", "op", "ip", "lc", "rc", "sp", "cp", "acp", "rp"}
ProductRefinement(c) ==
  \A op \in ProductOps : \A kx, ky \in Blades(c.d) :
     MI!Scale(IF op \in {"cp", "acp"} THEN 2 ELSE 1, ImplBladeProduct(c, op, kx, ky)) = RefBladeProduct(c, op, kx, ky)
InvolutionRefinement(c) ==
  \A k \in Blades(c.d) :
     /\ ImplInvolutionSign("reverse", k, c) = MI!RevSign(c.pop[k])
     /\ ImplInvolutionSign("involute", k, c) = MI!InvSign(c.pop[k])
     /\ ImplInvolutionSign("conjugate", k, c) = MI!ConjSign(c.pop[k])
HodgeRefinement(c) ==
  \A k \in Blades(c.d) :
     /\ MI!Hodge(c, MI!MVBlade(c.d, k)) = MI!Scale(ImplHodge(c, k, FALSE)[2], MI!MVBlade(c.d, ImplHodge(c, k, FALSE)[1]))
     /\ MI!Unhodge(c, MI!MVBlade(c.d, k)) = MI!Scale(ImplHodge(c, k, TRUE)[2], MI!MVBlade(c.d, ImplHodge(c, k, TRUE)[1]))
\* polarity: -x*pss, x*pss or ZeroDivisionError by the sign of pss*pss, is x * pss^-1
PolarityRefinement(c) ==
  LET s == Sgn(c, KeyPss(c), KeyPss(c)) IN
  /\ (s = 0) <=> MI!Degenerate(c)
  /\ s # 0 => \A k \in Blades(c.d) :
        LET x == MI!MVBlade(c.d, k)
            impl == MI!Scale(s, MI!GP(c, x, MI!MVPss(c)))          \* -x*pss for s = -1, x*pss for s = 1
        IN  /\ MI!SameElement(MI!GP(c, impl, MI!MVPss(c)), x)        \* impl = x * pss^-1
            /\ MI!SameElement(impl, MI!Polarity(c, x))
CodegenRefinement(c) == ProductRefinement(c) /\ InvolutionRefinement(c) /\ HodgeRefinement(c) /\ PolarityRefinement(c)
=============================================================================
