----------------------------- MODULE TraceGraph -----------------------------
(***************************************************************************)
(* GraphModel + trace validation for C20: the payload the GraphWidget sends *)
(* to the ganja.js front end, decoded the way the front end decodes it      *)
(* (graph.js toElement), must reproduce every reachable multivector.         *)
(*                                                                         *)
(* State: regs, the multivectors of the scene (id -> stored form).  Steps:   *)
(*   create  the widget is built from a subject tree                         *)
(*   drag    the front end reports moved points: draggable_points := new     *)
(*   update  the front end asks for re-evaluation (update_mvs message)       *)
(* Subject trees (JSON, field t):                                            *)
(*   {t:"int",v} {t:"str",v} {t:"mv",id} {t:"amv",ids:[...]} (array-valued:  *)
(*   one id per element) {t:"list",c:[...]} {t:"tuple",c:[...]}              *)
(*   {t:"call",c:<tree>} (zero-argument callable returning the tree)         *)
(*   {t:"expr",op,ids:[...]} (callable computing an operator of registers)   *)
(* Payload items (after the harness emulated the TRANSPORT only: byte        *)
(* buffers viewed as Float64, exactly `new Float64Array(buffer)`):           *)
(*   {t:"int",v} {t:"str",v} {t:"list",c:[...]} {t:"mv",haskeys,keys,vals}   *)
(* FRONT END (Decode): with keys, vals[j] goes to position key2idx[keys[j]]; *)
(* without keys the values are read in canonical blade order.                *)
(***************************************************************************)
EXTENDS AlgebraModel, Json, IOUtils

MI == INSTANCE MultivectorRef WITH
        CZero <- 0, COne <- 1, CAdd <- LAMBDA a, b : a + b, CMul <- LAMBDA a, b : a * b,
        CNeg <- LAMBDA a : 0 - a, CEq <- LAMBDA a, b : a = b, CScale <- LAMBDA k, a : k * a

Trace == ndJsonDeserialize(IOEnv.TRACE_FILE)
U == Trace[1].u
M == UC(U)
C == Compile(BitCfgM(M))
D == M.d
VARIABLES regs, l

PosOf(B) == (CHOOSE i \in DOMAIN M.order : M.order[i] = B) - 1
DenReg(rg, id) == MI!FromKV(D, rg[id].keys, rg[id].coefs)

\* front end: toElement
DecodeMV(p, key2idx) ==
  IF p.haskeys
  THEN [B \in Blades(D) |-> FoldSet(LAMBDA j, acc : IF key2idx[p.keys[j]] = PosOf(B) THEN acc + p.vals[j] ELSE acc, 0, DOMAIN p.keys)]
  ELSE [B \in Blades(D) |-> IF PosOf(B) + 1 \in DOMAIN p.vals THEN p.vals[PosOf(B) + 1] ELSE 0]

\* what the scene denotes: a sequence of items; an item is <<"int",v>>, <<"str",v>>, <<"mv",den>>, <<"list",items>>
RECURSIVE Expect(_, _), ExpectSeq(_, _)
Expect(rg, tr) ==
  IF tr.t = "int" THEN << <<"int", tr.v>> >>
  ELSE IF tr.t = "str" THEN << <<"str", tr.v>> >>
  ELSE IF tr.t = "mv" THEN << <<"mv", DenReg(rg, tr.id)>> >>
  ELSE IF tr.t = "amv" THEN [i \in DOMAIN tr.ids |-> <<"mv", DenReg(rg, tr.ids[i])>>]         \* expanded element by element
  ELSE IF tr.t \in {"list", "tuple"} THEN << <<"list", ExpectSeq(rg, tr.c)>> >>
  ELSE IF tr.t = "call" THEN Expect(rg, tr.c)                                                  \* replaced by its value
  ELSE << <<"mv", MI!Apply(C, tr.op, [i \in DOMAIN tr.ids |-> DenReg(rg, tr.ids[i])], <<>>)>> >>
ExpectSeq(rg, trs) == LET F[i \in 0 .. Len(trs)] == IF i = 0 THEN <<>> ELSE F[i - 1] \o Expect(rg, trs[i]) IN F[Len(trs)]

RECURSIVE Got(_, _)
Got(p, key2idx) ==
  IF p.t = "int" THEN <<"int", p.v>>
  ELSE IF p.t = "str" THEN <<"str", p.v>>
  ELSE IF p.t = "mv" THEN <<"mv", DecodeMV(p, key2idx)>>
  ELSE <<"list", [i \in DOMAIN p.c |-> Got(p.c[i], key2idx)]>>
GotSeq(ps, key2idx) == [i \in DOMAIN ps |-> Got(ps[i], key2idx)]

RegsOf(e) == [id \in {e.mvs[i].id : i \in DOMAIN e.mvs} |->
                LET r == e.mvs[CHOOSE i \in DOMAIN e.mvs : e.mvs[i].id = id] IN [keys |-> r.keys, coefs |-> r.coefs]]
K2I(e) == [B \in {e.key2idx[i][1] : i \in DOMAIN e.key2idx} |-> e.key2idx[CHOOSE i \in DOMAIN e.key2idx : e.key2idx[i][1] = B][2]]

MetaOK(e) ==
  /\ e.signature = M.usig
  /\ K2I(e) = [B \in Blades(D) |-> PosOf(B)]
  /\ \A J, I \in DOMAIN M.order :                      \* cayley[J][I] = product of the J-th and the I-th blade
        LET a == M.order[J] b == M.order[I] s == Sgn(C, a, b) en == e.cayley[J][I] IN
        en[1] = s /\ (s # 0 => en[2] = M.names[(a ^^ b) + 1])

\* the registers after a drag: exactly the stored blades of the dragged multivectors take the reported values
Dragged(rg, e) ==
  [id \in DOMAIN rg |->
     IF \E k \in DOMAIN e.dragids : e.dragids[k] = id
     THEN LET k == CHOOSE k \in DOMAIN e.dragids : e.dragids[k] = id IN
          [keys |-> rg[id].keys, coefs |-> [j \in DOMAIN rg[id].keys |-> e.newpoints[k][PosOf(rg[id].keys[j]) + 1]]]
     ELSE rg[id]]

StepVerdict(e, rg) ==
  LET now == RegsOf(e)
      k2i == K2I(e) IN
  IF e.raised # "" THEN "widget_raised"
  ELSE IF e.step = "create" /\ e.dpi # e.dpi_expected THEN "draggable_points_idxs_are_not_the_first_level_multivectors"
  ELSE IF e.step = "create" /\ e.hascamera /\ Got(e.camera, k2i) # <<"mv", DenReg(now, e.camid)>> THEN "camera_option_differs_from_its_multivector"
  ELSE IF e.step = "create" /\ ~MetaOK(e) THEN "signature_cayley_or_key2idx_do_not_describe_the_algebra"
  ELSE IF e.step = "drag" /\ now # Dragged(rg, e) THEN "drag_did_not_overwrite_exactly_the_addressed_coefficients"
  ELSE IF e.step = "update" /\ now # rg THEN "update_changed_a_multivector"
  ELSE IF GotSeq(e.payload, k2i) # ExpectSeq(now, e.tree) THEN "decoded_payload_differs_from_the_multivectors"
  \* draggable_points = walker(encode(points)) of the LIST of first-level points: one nested list
  ELSE IF e.step = "create" /\ GotSeq(e.dp, k2i) # << <<"list", [i \in DOMAIN e.dpids |-> <<"mv", DenReg(now, e.dpids[i])>>]>> >>
       THEN "draggable_points_differ_from_the_top_level_multivectors"
  ELSE "ok"

Init == regs = [i \in {} |-> <<>>] /\ l = 2
Next == /\ l <= Len(Trace)
        /\ LET e == Trace[l]
               v == StepVerdict(e, regs) IN
             /\ IF v = "ok" THEN TRUE ELSE PrintT(<<"REJECT", e.id, v>>)
             \* continue from what the implementation holds, so that one rejection does not hide the rest
             /\ regs' = IF e.raised = "" THEN RegsOf(e) ELSE regs
        /\ l' = l + 1
Spec == Init /\ [][Next]_<<regs, l>>
=============================================================================
