---------------------------- MODULE TraceAlgebra ----------------------------
(***************************************************************************)
(* Trace validation of what a constructed Algebra reports (code -> spec):  *)
(* one `table` event per configuration the harness built.  Every clause    *)
(* restates C01 / C14 on the RECORDED tables:                                *)
(*   names/order  : canon2bin / bin2canon are the model's names and order   *)
(*   sign_table   : signs[I,J] = Clifford sign of the named blades           *)
(*   relations    : the recorded table itself satisfies squares /            *)
(*                  anticommutation / associativity / unit                   *)
(*   cayley       : the reported Cayley table is that same table             *)
(*   products     : blades[a] * blades[b] = sign * blades[a xor b]           *)
(*   spellings    : a permuted spelling is +/- the canonical blade by the   *)
(*                  parity of the permutation                                *)
(***************************************************************************)
EXTENDS AlgebraModel, Json, IOUtils

MI == INSTANCE MultivectorRef WITH
        CZero <- 0, COne <- 1, CAdd <- LAMBDA a, b : a + b, CMul <- LAMBDA a, b : a * b,
        CNeg <- LAMBDA a : 0 - a, CEq <- LAMBDA a, b : a = b, CScale <- LAMBDA k, a : k * a

Trace == ndJsonDeserialize(IOEnv.TRACE_FILE)
VARIABLE l

TableVerdict(e) ==
  LET m == UC(e.u)
      c == Compile(BitCfgM(m))
      d == m.d
      tab == [i \in DOMAIN e.signs |-> <<e.signs[i][1], e.signs[i][2]>>]
      T == [p \in Range(tab) |-> e.signs[CHOOSE i \in DOMAIN e.signs : tab[i] = p][3]]
      complete == Range(tab) = Blades(d) \X Blades(d)
  IN
  IF e.raised # "" THEN "construction_raised"
  ELSE IF e.d # d THEN "dimension"
  ELSE IF e.sigrep # m.usig \/ e.start # m.start THEN "reported_signature_or_start_index"
  ELSE IF e.pqr # <<CountOf(m.usig, 1), CountOf(m.usig, -1), CountOf(m.usig, 0)>> THEN "reported_pqr"
  ELSE IF e.bins # m.order \/ e.names # [i \in DOMAIN m.order |-> m.names[m.order[i] + 1]]
       THEN "canonical_names_or_order"
  ELSE IF e.b2c # m.names THEN "bin2canon"
  ELSE IF \E i \in DOMAIN e.ifg : e.ifg[i][2] # IndicesForGrades(m, Range(e.ifg[i][1])) THEN "indices_for_grades"
  ELSE IF \E i \in DOMAIN e.typenums : e.typenums[i][2] # TypeNumber(m, Range(e.typenums[i][1])) THEN "type_number"
  ELSE IF \E i \in DOMAIN e.signs : e.signs[i][3] # Sgn(c, e.signs[i][1], e.signs[i][2])
       THEN "sign_table_entry_differs_from_clifford_sign"
  ELSE IF complete /\ d <= 5 /\
          ~(/\ \A j \in 0 .. d - 1 : T[<<Pow2(j), Pow2(j)>>] = c.sig[j + 1]
            /\ \A i, j \in 0 .. d - 1 : i # j => T[<<Pow2(i), Pow2(j)>>] = 0 - T[<<Pow2(j), Pow2(i)>>]
                                               /\ T[<<Pow2(i), Pow2(j)>>] # 0
            /\ \A A \in Blades(d) : T[<<0, A>>] = 1 /\ T[<<A, 0>>] = 1
            /\ \A A, B, C \in Blades(d) :
                  T[<<A, B>>] * T[<<A ^^ B, C>>] = T[<<B, C>>] * T[<<A, B ^^ C>>])
       THEN "recorded_table_violates_clifford_relations"
  ELSE IF \E i \in DOMAIN e.cayley :
            LET en == e.cayley[i] s == Sgn(c, en[1], en[2]) IN
            en[3] # s \/ (s # 0 /\ en[4] # m.names[(en[1] ^^ en[2]) + 1])
       THEN "cayley_table_differs"
  ELSE IF \E i \in DOMAIN e.prods :
            LET en == e.prods[i] IN
            ~MI!StoredOK(c, en[3], en[4]) \/
            ~MI!SameElement(MI!FromKV(d, en[3], en[4]),
                            MI!Scale(Sgn(c, en[1], en[2]), MI!MVBlade(d, en[1] ^^ en[2])))
       THEN "blade_product_differs"
  ELSE IF \E i \in DOMAIN e.spelled :
            LET en == e.spelled[i]
                B == NameBin(m, en[1])
                par == Orient(NameSpelling(m, en[1])) * Ori(c, B) IN
            ~MI!StoredOK(c, en[2], en[3]) \/
            ~MI!SameElement(MI!FromKV(d, en[2], en[3]), MI!Scale(par, MI!MVBlade(d, B)))
       THEN "spelled_blade_differs"
  ELSE IF e.alen # Pow2(d) THEN "len_of_algebra"
  \* frame = the generators e_j (bit order), reciprocal frame e^j = sig_j e_j, defined iff no generator is null
  ELSE IF Len(e.frame) # d \/ \E j \in 1 .. d : ~MI!SameElement(MI!FromKV(d, e.frame[j][1], e.frame[j][2]), MI!MVBlade(d, Pow2(j - 1)))
       THEN "frame_is_not_the_generators"
  ELSE IF (\E j \in 1 .. d : c.sig[j] = 0) /\ e.rframe_raised # "ZeroDivisionError" THEN "reciprocal_frame_of_degenerate_metric_must_raise_ZeroDivisionError"
  ELSE IF (\A j \in 1 .. d : c.sig[j] # 0) /\
          (e.rframe_raised # "" \/ Len(e.rframe) # d \/
           \E j \in 1 .. d : ~MI!SameElement(MI!FromKV(d, e.rframe[j][1], e.rframe[j][2]), MI!Scale(c.sig[j], MI!MVBlade(d, Pow2(j - 1)))))
       THEN "reciprocal_frame_differs"
  \* blades.grade(gs): the canonical names of the blades of those grades, in canonical order, each the unit blade
  ELSE IF \E i \in DOMAIN e.bgrade :
            LET en == e.bgrade[i]
                want == IndicesForGrades(m, Range(en[1])) IN
            en[2] # [k \in DOMAIN want |-> m.names[want[k] + 1]] \/ Len(en[3]) # Len(want) \/
            \E k \in DOMAIN want : ~MI!SameElement(MI!FromKV(d, en[3][k][1], en[3][k][2]), MI!MVBlade(d, want[k]))
       THEN "blades_of_grade_differ"
  ELSE "ok"

\* a configuration that is NOT admissible must be refused (assert / exception), never built
RejectVerdict(e) == IF e.raised = "" THEN "inadmissible_configuration_accepted" ELSE "ok"

Verdict(e) ==
  CASE e.kind = "table" -> TableVerdict(e)
    [] e.kind = "reject" -> RejectVerdict(e)
    [] OTHER -> "unknown_event_kind"

Init == l = 1
Next == /\ l <= Len(Trace)
        /\ LET v == Verdict(Trace[l]) IN
             IF v = "ok" THEN TRUE ELSE PrintT(<<"REJECT", Trace[l].id, v>>)
        /\ l' = l + 1
Spec == Init /\ [][Next]_l
=============================================================================
