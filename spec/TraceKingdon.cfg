SPECIFICATION Spec
PROPERTY CacheMonotone
CHECK_DEADLOCK FALSE
