---------------------------- MODULE TraceKingdon ----------------------------
(***************************************************************************)
(* Trace validation (code -> spec) of the cache / name-space / dispatch    *)
(* machinery: the events recorded from the REAL library by the external    *)
(* instrumentation (harness/instrument.py) are replayed through the state  *)
(* of Kingdon.tla -- cache, numspace, per-thread call stacks -- and the     *)
(* properties of Kingdon.tla are evaluated at every step of the real run:   *)
(*                                                                         *)
(*  DispatchExact (C09, C11)  every function that RAN, and every name that  *)
(*      was resolved for a call, denotes the function generated for exactly *)
(*      the ordered key pattern of that call;                                *)
(*  GenOnce (C10)  a pattern with a cache entry is never looked up as a    *)
(*      miss, generated, compiled or published again (sequential traces);   *)
(*  CacheMonotone, FailAtomic  as in Kingdon.tla.                            *)
(*                                                                         *)
(* The monitor never gets stuck: every event is consumed, a failing clause *)
(* is printed as REJECT <id> <clause>.  Clauses that restate a property are *)
(* named V_..., observations that merely differ from the model's protocol  *)
(* are named drift_... (reported, never a violation).                       *)
(*                                                                         *)
(* Events (one ndjson line each; header line first):                         *)
(*   Begin{t,op,pat,kind}  Lookup{t,op,pat,hit}  Compile{t,where2}          *)
(*   PubNames{t,name,fn}   PubCache{t,op,pat}    NameRead{t,name,fn}        *)
(*   Ran{t,fn}  Return{t}  Raise{t}                                          *)
(***************************************************************************)
EXTENDS Integers, Sequences, FiniteSets, TLC, Functions, SequencesExt, Json, IOUtils

Trace == ndJsonDeserialize(IOEnv.TRACE_FILE)
Header == Trace[1]
Sequential == Header.threads = 1

VARIABLES cache, numspace, fr, callees, l

Cached(s, op, pat) == op \in DOMAIN s.cache /\ pat \in s.cache[op]
Fn(op, pat) == <<op, pat>>
Stack(s, t) == IF t \in DOMAIN s.fr THEN s.fr[t] ELSE <<>>
SetStack(s, t, st) == [s EXCEPT !.fr = (t :> st) @@ s.fr]
TopOf(st) == st[Len(st)]
ReplaceTop(st, f) == [st EXCEPT ![Len(st)] = f]
PopOf(st) == SubSeq(st, 1, Len(st) - 1)
NewFrame(op, pat, role, kind, phase) ==
  [op |-> op, pat |-> pat, role |-> role, kind |-> kind, phase |-> phase, todo |-> <<>>]
CalleesOf(s, fn) == IF fn \in DOMAIN s.callees THEN s.callees[fn] ELSE <<>>
IsRegistered(s, fn) == fn \in DOMAIN s.callees

\* what a registered function's body executes, in order: every callee, and (inline) what a
\* callee that is itself a registered function executes
RECURSIVE ExecList(_, _, _)
ExecList(s, fn, fuel) ==
  IF fuel = 0 THEN <<>> ELSE
  LET cs == CalleesOf(s, fn)
      F[i \in 0 .. Len(cs)] ==
        IF i = 0 THEN <<>>
        ELSE F[i - 1] \o <<cs[i]>> \o (IF IsRegistered(s, cs[i]) THEN ExecList(s, cs[i], fuel - 1) ELSE <<>>)
  IN  F[Len(cs)]

R(v, s) == [v |-> v, s |-> s]

(***************************************************************************)
(* One handler per event kind: <<verdict, next state>>.                      *)
(***************************************************************************)
HBegin(e, s) ==
  LET st == Stack(s, e.t) IN
  IF st # <<>> THEN R("drift_begin_while_busy", SetStack(s, e.t, <<NewFrame(e.op, e.pat, "call", e.kind, "lookup")>>))
  ELSE R("ok", SetStack(s, e.t, <<NewFrame(e.op, e.pat, "call", e.kind, "lookup")>>))

HLookup(e, s) ==
  LET st == Stack(s, e.t)
      was == Cached(s, e.op, e.pat)
      v == IF e.hit = was THEN "ok"
           ELSE IF was /\ Sequential THEN "V_GenOnce_cached_pattern_looked_up_as_miss"
           ELSE IF was THEN "ok"     \* concurrent: entry published between the two reads is benign
           ELSE "drift_lookup_hit_without_entry"
  IN
  IF st = <<>> THEN R("drift_lookup_outside_call", s)
  ELSE LET top == TopOf(st) IN
       IF top.phase = "lookup" /\ top.op = e.op /\ top.pat = e.pat
       THEN R(v, SetStack(s, e.t, ReplaceTop(st, [top EXCEPT !.phase = IF e.hit THEN "dispatch" ELSE "gen"])))
       ELSE IF top.phase \in {"lookup", "py"}
       \* the user-level call is python code around operator calls (x.dual() -> polarity/hodge,
       \* x ** n -> repeated gp, norm -> normsq, sqrt, ...): its operator calls are ordinary calls
       THEN LET kind == IF e.op \in Range(Header.registered) THEN "registered" ELSE "operator"
                nf == NewFrame(e.op, e.pat, "call", kind, IF e.hit THEN "dispatch" ELSE "gen")
            IN  R(v, SetStack(s, e.t, Append(ReplaceTop(st, [top EXCEPT !.phase = "py"]), nf)))
       ELSE IF top.phase = "gen"
       THEN LET role == IF top.kind = "registered" THEN "getitem" ELSE "call"
                \* a registered function remembers what its tape looked up: its callees
                s1 == IF role = "getitem"
                      THEN [s EXCEPT !.callees = (Fn(top.op, top.pat) :> Append(CalleesOf(s, Fn(top.op, top.pat)), Fn(e.op, e.pat))) @@ s.callees]
                      ELSE s
                kind == IF e.op \in Range(Header.registered) THEN "registered" ELSE "operator"
                nf == NewFrame(e.op, e.pat, role, kind, IF e.hit THEN "dispatch" ELSE "gen")
            IN  IF e.hit /\ role = "getitem" THEN R(v, s1)
                ELSE R(v, SetStack(s1, e.t, Append(st, nf)))
       ELSE R("drift_lookup_in_unexpected_phase", s)

InGeneration(s, t) == \E i \in DOMAIN Stack(s, t) : Stack(s, t)[i].phase = "gen"

HCompile(e, s) ==
  IF e.where2 = "_lambdify_mv" THEN R("ok", s)          \* first call of a symbolic multivector
  \* the very same source text (function name and body) compiled a second time on one algebra: generated twice, whichever
  \* path led there (e.g. a nested call that bypasses the cache)
  ELSE IF e.again /\ Sequential THEN R("V_GenOnce_same_function_compiled_again", s)
  ELSE IF InGeneration(s, e.t) THEN R("ok", s)
  ELSE R("V_GenOnce_compiled_without_a_cache_miss", s)

HPubNames(e, s) ==
  LET st == Stack(s, e.t)
      fn == <<e.fn[1], e.fn[2]>>
      s1 == [s EXCEPT !.numspace = (e.name :> fn) @@ s.numspace]
      regen == Cached(s, fn[1], fn[2]) /\ Sequential
      \* a registered function is known to the monitor from its first publication on
      s2 == IF fn[1] \in Range(Header.registered) /\ fn \notin DOMAIN s1.callees
            THEN [s1 EXCEPT !.callees = (fn :> <<>>) @@ s1.callees] ELSE s1
  IN
  IF regen THEN R("V_GenOnce_name_published_again_for_cached_pattern", s2)
  ELSE IF st = <<>> \/ TopOf(st).phase # "gen" \/ Fn(TopOf(st).op, TopOf(st).pat) # fn
       THEN R("drift_publication_outside_its_generation", s2)
  ELSE R("ok", s2)

HPubCache(e, s) ==
  LET st == Stack(s, e.t)
      regen == Cached(s, e.op, e.pat) /\ Sequential
      s1 == [s EXCEPT !.cache = (e.op :> ((IF e.op \in DOMAIN s.cache THEN s.cache[e.op] ELSE {}) \cup {e.pat})) @@ s.cache]
  IN
  IF st = <<>> \/ TopOf(st).phase # "gen" \/ TopOf(st).op # e.op \/ TopOf(st).pat # e.pat
  THEN R(IF regen THEN "V_GenOnce_cache_entry_stored_again" ELSE "drift_cache_store_outside_its_generation", s1)
  ELSE LET top == TopOf(st)
           st1 == IF top.role = "getitem" THEN PopOf(st) ELSE ReplaceTop(st, [top EXCEPT !.phase = "dispatch"])
       IN  R(IF regen THEN "V_GenOnce_cache_entry_stored_again" ELSE "ok", SetStack(s1, e.t, st1))

HNameRead(e, s) ==
  LET st == Stack(s, e.t)
      fn == <<e.fn[1], e.fn[2]>>
  IN
  IF st = <<>> THEN R("drift_name_read_outside_call", s)
  ELSE LET top == TopOf(st) IN
       IF top.phase = "dispatch"
       THEN R(IF fn = Fn(top.op, top.pat) THEN "ok" ELSE "V_DispatchExact_name_resolved_to_function_of_other_pattern", s)
       ELSE IF top.phase = "exec"
       THEN IF FALSE THEN R("drift_name_read_after_last_callee", s)
            \* python loads the callee's name before it evaluates the arguments, so names are read
            \* in another order than the tape recorded them: membership, not position
            ELSE R(IF fn \in Range(top.todo) THEN "ok" ELSE "V_DispatchExact_callee_name_resolved_to_other_function", s)
       ELSE R("drift_name_read_in_unexpected_phase", s)

HRan(e, s) ==
  LET st == Stack(s, e.t)
      fn == <<e.fn[1], e.fn[2]>>
  IN
  IF st = <<>> THEN R("drift_function_ran_outside_call", s)
  ELSE LET top == TopOf(st) IN
       IF top.phase = "dispatch"
       THEN LET exact == fn = Fn(top.op, top.pat)
                reg == IsRegistered(s, fn) \/ top.kind = "registered"
                nt == IF reg THEN [top EXCEPT !.phase = "exec", !.todo = ExecList(s, fn, 4)]
                      ELSE [top EXCEPT !.phase = "done"]
                \* nested calls made while generating have no Return event: they end when their
                \* function has run
                st1 == IF Len(st) > 1 /\ ~reg THEN PopOf(st) ELSE ReplaceTop(st, nt)
            IN  R(IF exact THEN "ok" ELSE "V_DispatchExact_function_of_other_pattern_ran", SetStack(s, e.t, st1))
       ELSE IF top.phase = "exec"
       \* the body of a registered function may run a callee any number of times (the tape's
       \* expression text is duplicated, e.g. by **): membership in its callee list
       THEN R(IF fn \in Range(top.todo) THEN "ok" ELSE "V_DispatchExact_callee_of_other_pattern_ran", s)
       ELSE R("drift_function_ran_in_unexpected_phase", s)

\* The configuration of the algebra (wrapper, simp_func, codegen_symbolcls, cse, graded, signature, basis, ...) is a
\* CONSTANT of the model (Kingdon.tla: Wrapper, ...): no call, succeeding or failing, may leave it changed.  e.cfg is ""
\* or the name of the first field that differs from its value after creation.
HReturn(e, s) ==
  LET st == Stack(s, e.t) IN
  IF e.cfg # "" THEN R("V_ConfigStable_call_changed_the_configuration_of_the_algebra", SetStack(s, e.t, <<>>))
  ELSE IF Len(st) = 1 /\ TopOf(st).phase \in {"done", "exec", "py", "lookup"}
  THEN R("ok", SetStack(s, e.t, <<>>))
  ELSE R("drift_return_with_pending_frames", SetStack(s, e.t, <<>>))

\* an exception unwinds the thread's stack; nothing of the failing generations is published
HRaise(e, s) ==
  LET st == Stack(s, e.t)
      half == {i \in DOMAIN st : st[i].phase = "gen" /\ Cached(s, st[i].op, st[i].pat)}
  IN  R(IF e.cfg # "" THEN "V_FailAtomic_failing_call_changed_the_configuration_of_the_algebra"
        ELSE IF half = {} THEN "ok" ELSE "V_FailAtomic_failing_generation_left_a_cache_entry", SetStack(s, e.t, <<>>))

Handle(e, s) ==
  CASE e.k = "Begin" -> HBegin(e, s)
    [] e.k = "Lookup" -> HLookup(e, s)
    [] e.k = "Compile" -> HCompile(e, s)
    [] e.k = "PubNames" -> HPubNames(e, s)
    [] e.k = "PubCache" -> HPubCache(e, s)
    [] e.k = "NameRead" -> HNameRead(e, s)
    [] e.k = "Ran" -> HRan(e, s)
    [] e.k = "Return" -> HReturn(e, s)
    [] e.k = "Raise" -> HRaise(e, s)
    [] OTHER -> R("drift_unknown_event", s)

Init == /\ cache = [o \in {} |-> {}]
        /\ numspace = [n \in {} |-> <<>>]
        /\ fr = [t \in {} |-> <<>>]
        /\ callees = [f \in {} |-> <<>>]
        /\ l = 2
Next == /\ l <= Len(Trace)
        /\ LET r == Handle(Trace[l], [cache |-> cache, numspace |-> numspace, fr |-> fr, callees |-> callees]) IN
             /\ cache' = r.s.cache /\ numspace' = r.s.numspace /\ fr' = r.s.fr /\ callees' = r.s.callees
             /\ IF r.v = "ok" THEN TRUE ELSE PrintT(<<"REJECT", Trace[l].id, r.v>>)
        /\ l' = l + 1
Spec == Init /\ [][Next]_<<cache, numspace, fr, callees, l>>

\* CacheMonotone on the real run
CacheMonotone == [][\A o \in DOMAIN cache : o \in DOMAIN cache' /\ cache[o] \subseteq cache'[o]]_<<cache, numspace, fr, callees, l>>
=============================================================================
