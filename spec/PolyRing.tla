------------------------------ MODULE PolyRing ------------------------------
(***************************************************************************)
(* The free commutative ring Z[v1, v2, ...] and its field of fractions, as *)
(* the coefficient rings of the reference semantics.                        *)
(*                                                                         *)
(* A monomial is an ascending sequence of variable ids (repetition =       *)
(* power).  A polynomial is a function  monomial -> non-zero integer  with *)
(* finite domain (the zero polynomial is the empty function).  A polynomial*)
(* identity over Z holds in every commutative ring, so an equality decided *)
(* here decides it for all coefficient values.                              *)
(*                                                                         *)
(* A rational function is a pair <<n, d>> of polynomials, d # 0, compared  *)
(* by cross-multiplication (Z[v...] is an integral domain).                 *)
(***************************************************************************)
EXTENDS Integers, Sequences, FiniteSets, FiniteSetsExt, SequencesExt, Functions

PZero == <<>>                           \* the empty function
PConst(k) == IF k = 0 THEN PZero ELSE (<<>> :> k)
POne == PConst(1)
PVar(v) == (<<v>> :> 1)

PCoef(p, m) == IF m \in DOMAIN p THEN p[m] ELSE 0

\* drop zero coefficients
PNorm(f) == LET D == {m \in DOMAIN f : f[m] # 0} IN [m \in D |-> f[m]]

PAdd(p, q) ==
  IF DOMAIN p = {} THEN q ELSE IF DOMAIN q = {} THEN p ELSE
  LET D == DOMAIN p \cup DOMAIN q
  IN  PNorm([m \in D |-> PCoef(p, m) + PCoef(q, m)])

PNeg(p) == [m \in DOMAIN p |-> 0 - p[m]]
PSub(p, q) == PAdd(p, PNeg(q))
PScale(k, p) == IF k = 0 THEN PZero ELSE [m \in DOMAIN p |-> k * p[m]]

MonoMul(m1, m2) == IF m1 = <<>> THEN m2 ELSE IF m2 = <<>> THEN m1
                   ELSE SortSeq(m1 \o m2, LAMBDA a, b : a < b)

PMul(p, q) ==
  IF DOMAIN p = {} \/ DOMAIN q = {} THEN PZero ELSE
  IF p = POne THEN q ELSE IF q = POne THEN p ELSE
  LET pairs == (DOMAIN p) \X (DOMAIN q)
      M == {MonoMul(pr[1], pr[2]) : pr \in pairs}
      coef(m) == FoldSet(LAMBDA pr, acc :
                           IF MonoMul(pr[1], pr[2]) = m THEN acc + p[pr[1]] * q[pr[2]] ELSE acc,
                         0, pairs)
  IN  PNorm([m \in M |-> coef(m)])

RECURSIVE PPow(_, _)
PPow(p, n) == IF n = 0 THEN POne ELSE PMul(p, PPow(p, n - 1))

PSumSet(S, f(_)) == FoldSet(LAMBDA x, acc : PAdd(f(x), acc), PZero, S)

\* evaluation at an assignment  env : variable id -> Int
RECURSIVE MonoEval(_, _)
MonoEval(m, env) == IF m = <<>> THEN 1 ELSE env[Head(m)] * MonoEval(Tail(m), env)
PEval(p, env) == FoldSet(LAMBDA m, acc : acc + p[m] * MonoEval(m, env), 0, DOMAIN p)

\* substitution of polynomials for variables:  sub : variable id -> polynomial
RECURSIVE MonoSubst(_, _)
MonoSubst(m, sub) == IF m = <<>> THEN POne
                     ELSE PMul(IF Head(m) \in DOMAIN sub THEN sub[Head(m)] ELSE PVar(Head(m)),
                               MonoSubst(Tail(m), sub))
PSubst(p, sub) == PSumSet(DOMAIN p, LAMBDA m : PScale(p[m], MonoSubst(m, sub)))

PVars(p) == UNION {Range(m) : m \in DOMAIN p}
PDegree(p) == IF DOMAIN p = {} THEN 0 ELSE Max({Len(m) : m \in DOMAIN p})
PIsConst(p) == DOMAIN p \subseteq {<<>>}

(***************************************************************************)
(* Decoding of the JSON form  [[coef, [vars...]], ...]  (a sequence of     *)
(* <<coef, vars>> pairs; repeated monomials are summed, variables sorted). *)
(***************************************************************************)
PFromSeq(s) ==
  IF s = <<>> THEN PZero ELSE
  LET mono(i) == SortSeq(s[i][2], LAMBDA a, b : a < b)
      M == {mono(i) : i \in DOMAIN s}
  IN  PNorm([m \in M |-> FoldSet(LAMBDA i, acc : IF mono(i) = m THEN acc + s[i][1] ELSE acc,
                                 0, DOMAIN s)])

(***************************************************************************)
(* Field of fractions.                                                      *)
(***************************************************************************)
RZero == <<PZero, POne>>
ROne == <<POne, POne>>
RFromPoly(p) == <<p, POne>>
RConst(k) == RFromPoly(PConst(k))
RWellFormed(r) == r[2] # PZero
REq(a, b) == IF a[2] = b[2] THEN a[1] = b[1] ELSE PMul(a[1], b[2]) = PMul(b[1], a[2])
RIsZero(a) == a[1] = PZero
RAdd(a, b) == IF a[1] = PZero THEN b ELSE IF b[1] = PZero THEN a ELSE
              IF a[2] = b[2] THEN <<PAdd(a[1], b[1]), a[2]>>
              ELSE <<PAdd(PMul(a[1], b[2]), PMul(b[1], a[2])), PMul(a[2], b[2])>>
RNeg(a) == <<PNeg(a[1]), a[2]>>
RSub(a, b) == RAdd(a, RNeg(b))
RMul(a, b) == IF a[1] = PZero \/ b[1] = PZero THEN RZero
              ELSE <<PMul(a[1], b[1]), PMul(a[2], b[2])>>
RInv(a) == <<a[2], a[1]>>            \* defined iff a[1] # PZero
RDiv(a, b) == RMul(a, RInv(b))
RScale(k, a) == <<PScale(k, a[1]), a[2]>>
\* JSON form {n: poly, d: poly}
RFromJson(j) == <<PFromSeq(j.n), PFromSeq(j.d)>>

(***************************************************************************)
(* Evaluation at rational points.  A rational NUMBER is a pair <<n, d>> of  *)
(* integers, d # 0 (not reduced); env : variable id -> rational number.      *)
(***************************************************************************)
RECURSIVE GCD(_, _)
AbsI(a) == IF a < 0 THEN 0 - a ELSE a
GCD(a, b) == IF b = 0 THEN AbsI(a) ELSE GCD(AbsI(b), AbsI(a) % AbsI(b))
\* lowest terms, positive denominator (keeps the 32-bit integers of TLC small); <<x, 0>> stays a pole
QNorm(q) == IF q[2] = 0 THEN <<1, 0>> ELSE
            LET g == GCD(q[1], q[2])
                s == IF q[2] < 0 THEN -1 ELSE 1
            IN  IF g = 0 THEN <<0, 1>> ELSE <<s * (q[1] \div g), s * (q[2] \div g)>>
QAdd(a, b) == IF a[2] = 0 \/ b[2] = 0 THEN <<1, 0>> ELSE
              IF a[2] = b[2] THEN QNorm(<<a[1] + b[1], a[2]>>) ELSE QNorm(<<a[1] * b[2] + b[1] * a[2], a[2] * b[2]>>)
QMul(a, b) == IF a[2] = 0 \/ b[2] = 0 THEN <<1, 0>> ELSE QNorm(<<a[1] * b[1], a[2] * b[2]>>)
QEq(a, b) == a[1] * b[2] = b[1] * a[2]
RECURSIVE MonoEvalQ(_, _)
MonoEvalQ(m, env) == IF m = <<>> THEN <<1, 1>> ELSE QMul(env[Head(m)], MonoEvalQ(Tail(m), env))
PEvalQ(p, env) == FoldSet(LAMBDA m, acc : QAdd(QMul(<<p[m], 1>>, MonoEvalQ(m, env)), acc), <<0, 1>>, DOMAIN p)
\* value of the rational function r = <<num, den>> at env; <<x, 0>> signals a pole
REvalQ(r, env) == LET n == PEvalQ(r[1], env) d == PEvalQ(r[2], env) IN
                  IF d[1] = 0 THEN <<1, 0>> ELSE QNorm(<<n[1] * d[2], n[2] * d[1]>>)
\* a constant rational function as a rational number
RToQ(r) == <<PCoef(r[1], <<>>), PCoef(r[2], <<>>)>>
RIsConst(r) == PIsConst(r[1]) /\ PIsConst(r[2])

(***************************************************************************)
(* Ring laws on a small generated carrier, checked by TLC (MC_PolyRing).   *)
(***************************************************************************)
SmallPolys == {PZero, POne, PConst(-1), PConst(2), PVar(1), PVar(2),
               PAdd(PVar(1), PVar(2)), PSub(PVar(1), PConst(2)),
               PMul(PVar(1), PVar(2)), PMul(PVar(1), PVar(1)),
               PAdd(PMul(PVar(1), PVar(2)), PConst(3)),
               PSub(PMul(PVar(2), PVar(2)), PVar(1))}

RingLaws(S) ==
  /\ \A p \in S : PAdd(p, PZero) = p /\ PMul(p, POne) = p /\ PMul(p, PZero) = PZero
                  /\ PAdd(p, PNeg(p)) = PZero
  /\ \A p, q \in S : PAdd(p, q) = PAdd(q, p) /\ PMul(p, q) = PMul(q, p)
  /\ \A p, q, r \in S : /\ PAdd(PAdd(p, q), r) = PAdd(p, PAdd(q, r))
                        /\ PMul(PMul(p, q), r) = PMul(p, PMul(q, r))
                        /\ PMul(p, PAdd(q, r)) = PAdd(PMul(p, q), PMul(p, r))

EvalHom(S, env) ==
  \A p, q \in S : /\ PEval(PAdd(p, q), env) = PEval(p, env) + PEval(q, env)
                  /\ PEval(PMul(p, q), env) = PEval(p, env) * PEval(q, env)
=============================================================================
