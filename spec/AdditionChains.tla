--------------------------- MODULE AdditionChains ---------------------------
(***************************************************************************)
(* AdditionChains.minimal_chains and power_supply (codegen.py:45-99), which *)
(* every integer power goes through (Polynomial.__pow__, RationalPolynomial *)
(* .__pow__, the iterative inverse for d >= 6).                              *)
(*                                                                         *)
(* minimal_chains is transcribed as a loop machine: `chains` is the dict    *)
(* in insertion order (a sequence of <<value, chain>>); one PASS iterates   *)
(* over a copy of it and appends the new values found.                       *)
(* Properties of the result (for every limit): every 1..limit has a chain;  *)
(* a chain ends in its index; every element after the first is the sum of  *)
(* the previous element and an element of the chain (a valid addition       *)
(* chain); every proper prefix of a stored chain is the stored chain of its *)
(* last element (PrefixClosed) -- which is exactly what power_supply needs  *)
(* to find powers[chain[-2]] and powers[step - chain[-2]] already computed. *)
(* power_supply is modelled on EXPONENTS: multiplying powers adds exponents, *)
(* so the k-th yielded value must have exponent = the k-th requested step.   *)
(***************************************************************************)
EXTENDS Integers, Sequences, FiniteSets, TLC, Functions, SequencesExt

Has(c, v) == \E i \in DOMAIN c : c[i][1] = v
ChainOf(c, v) == c[CHOOSE i \in DOMAIN c : c[i][1] = v][2]

\* The loop machine: while any(i not in chains ...): for chain in chains.copy().values(): right = chain[-1];
\*   for left in chain: value = left + right; if value <= limit and value not in chains: chains[value] = (*chain, value)
\* pc = "while" | "inner" | "done";  copy = chains.copy(), ci / li = positions of the two for loops
VARIABLES limit, chs, copy, ci, li, pc
lvars == <<limit, chs, copy, ci, li, pc>>
Complete(c, lim) == \A i \in 1 .. lim : Has(c, i)
LInit(MaxLimit) == /\ limit \in 1 .. MaxLimit /\ chs = << <<1, <<1>>>> >> /\ copy = <<>> /\ ci = 0 /\ li = 0 /\ pc = "while"
While == /\ pc = "while"
         /\ IF Complete(chs, limit) THEN pc' = "done" /\ UNCHANGED <<limit, chs, copy, ci, li>>
            ELSE pc' = "inner" /\ copy' = chs /\ ci' = 1 /\ li' = 1 /\ UNCHANGED <<limit, chs>>
Inner == /\ pc = "inner"
         /\ IF ci > Len(copy) THEN pc' = "while" /\ UNCHANGED <<limit, chs, copy, ci, li>>
            ELSE LET chain == copy[ci][2] IN
                 IF li > Len(chain) THEN ci' = ci + 1 /\ li' = 1 /\ UNCHANGED <<limit, chs, copy, pc>>
                 ELSE LET value == chain[li] + chain[Len(chain)] IN
                      /\ chs' = IF value <= limit /\ ~Has(chs, value) THEN Append(chs, <<value, Append(chain, value)>>) ELSE chs
                      /\ li' = li + 1 /\ UNCHANGED <<limit, copy, ci, pc>>
LNext == While \/ Inner
Terminates == <>(pc = "done")

ValidChain(ch, v) ==
  /\ ch[1] = 1 /\ ch[Len(ch)] = v
  /\ \A k \in 2 .. Len(ch) : \E j \in 1 .. k - 1 : ch[k] = ch[k - 1] + ch[j]
PrefixClosed(c) ==
  \A i \in DOMAIN c : Len(c[i][2]) > 1 =>
     LET ch == c[i][2] IN Has(c, ch[Len(ch) - 1]) /\ ChainOf(c, ch[Len(ch) - 1]) = SubSeq(ch, 1, Len(ch) - 1)
ChainsOK(c, lim) ==
  /\ Complete(c, lim)
  /\ \A i \in DOMAIN c : ValidChain(c[i][2], c[i][1]) /\ c[i][1] <= lim
  /\ \A i, j \in DOMAIN c : i # j => c[i][1] # c[j][1]
  /\ PrefixClosed(c)

\* power_supply on exponents: powers = {1: 1}; for step in exponents: if step not in powers: ...
RECURSIVE Supply(_, _, _, _)
Supply(c, exps, powers, out) ==
  IF exps = <<>> THEN out
  ELSE LET step == Head(exps) IN
       IF step \in DOMAIN powers THEN Supply(c, Tail(exps), powers, Append(out, powers[step]))
       ELSE LET ch == ChainOf(c, step)
                a == ch[Len(ch) - 1]
                b == step - a IN
            IF a \notin DOMAIN powers \/ b \notin DOMAIN powers THEN Append(out, -1)        \* KeyError in python
            ELSE LET pw == (step :> (powers[a] + powers[b])) @@ powers IN Supply(c, Tail(exps), pw, Append(out, pw[step]))
\* power_supply(x, n) for an int n: exponents = the chain of n;  for a tuple: the tuple itself
PowerSupplyOK(c, n) ==
  /\ Supply(c, ChainOf(c, n), (1 :> 1), <<>>) = ChainOf(c, n)          \* int target: yields x^step for every step of its chain
  /\ Supply(c, [i \in 1 .. n |-> i], (1 :> 1), <<>>) = [i \in 1 .. n |-> i]   \* tuple of exponents 1..n (iterative inverse)
=============================================================================
