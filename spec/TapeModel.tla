------------------------------ MODULE TapeModel ------------------------------
(***************************************************************************)
(* The second compiler of kingdon: registered functions (C11).               *)
(*                                                                         *)
(* alg.register(f) runs f once per key pattern on TapeRecorder objects      *)
(* (taperecorder.py): a tape is a pair  (keys, expr)  where expr is source  *)
(* text that calls generated operator functions BY NAME.  do_compile wraps  *)
(* the final expr into a function whose globals are algebra.numspace.       *)
(*                                                                         *)
(* Model.  A compiled operator function for (op, pattern) maps coefficient  *)
(* sequences to the coefficient sequence of its output keys; its meaning is *)
(* the reference operator restricted to those keys (that is what the       *)
(* conformance checks C02-C08 establish), and its output keys are the       *)
(* blades that can be non-zero, in canonical order (do_codegen).  A tape's  *)
(* run-time value is therefore a stored multivector [keys, vals], and       *)
(* every TapeRecorder method is transcribed as an operation on such values: *)
(*   binary_operator / unary_operator (taperecorder.py:68-81): a number    *)
(*       operand is the scalar pattern (0,);  __rmul__, __radd__, __rxor__  *)
(*       are aliases of the non-reflected method (operands swapped),         *)
(*       __rsub__ = other + (-self)                                           *)
(*   __getattr__ (28-50): coefficient access; keyed by CoefKey                *)
(*   grade (52-64): positional selection, stored order kept                   *)
(*   __pow__ (101-112): repeated gp; negative exponents by PowNeg             *)
(*   dual / undual (132-149): kind selected by the number of null generators *)
(* Deviations that were DEFECTS of the pinned code are constants of the      *)
(* model (CoefKey, PowNeg); TLC refutes TapeFaithful for the old values and   *)
(* proves it (on the bounded program space) for the repaired ones.            *)
(* TapeFaithful: for every program of the grammar and every argument pattern *)
(* Den(run of the tape) = Sem(program)(Den args)  (MultivectorRef!EvalTree).  *)
(***************************************************************************)
EXTENDS CliffordRef, PolyRing

CONSTANTS CoefKey,     \* "scalar": x.e12 is a scalar tape (repaired)   "blade": keyed by the blade (pinned code)
          PowNeg       \* "inverse": x ** -n = inv(x) ** n (repaired)    "ignored": x ** -n = x (pinned code)

MR == INSTANCE MultivectorRef WITH
        CZero <- RZero, COne <- ROne, CAdd <- RAdd, CMul <- RMul, CNeg <- RNeg, CEq <- REq, CScale <- RScale

\* a stored multivector value
SV(keys, vals) == [keys |-> keys, vals |-> vals]
DenSV(c, v) == MR!FromKV(c.d, v.keys, v.vals)

\* the compiled function for (op, patterns of the operands): output keys = blades that can be non-zero for
\* generic operands, in canonical order; output values = the reference result on those keys
GenericDen(c, keys, tag) == MR!FromKV(c.d, keys, [i \in DOMAIN keys |-> RFromPoly(PVar(tag * 1000 + keys[i] + 1))])
KeysOut(c, op, pats, params) ==
  LET g == MR!Apply(c, op, [i \in DOMAIN pats |-> GenericDen(c, pats[i], 90 + i)], params)
  IN  SelectSeq(c.order, LAMBDA K : ~RIsZero(g[K]))
CallCompiled(c, op, operands, params) ==
  LET ko == KeysOut(c, op, [i \in DOMAIN operands |-> operands[i].keys], params)
      r == MR!Apply(c, op, [i \in DOMAIN operands |-> DenSV(c, operands[i])], params)
  IN  SV(ko, [i \in DOMAIN ko |-> r[ko[i]]])

NullCount(c) == Cardinality({j \in 1 .. c.d : c.sig[j] = 0})
DualOp(c, op) == IF NullCount(c) = 0 THEN (IF op = "dual" THEN "polarity" ELSE "unpolarity")
                 ELSE (IF op = "dual" THEN "hodge" ELSE "unhodge")

\* TapeRecorder.grade: positions of the stored keys whose grade is selected, stored order kept
TapeGrade(c, v, gs) ==
  LET idx == SelectSeq([i \in DOMAIN v.keys |-> i], LAMBDA i : c.pop[v.keys[i]] \in gs)
  IN  SV([k \in DOMAIN idx |-> v.keys[idx[k]]], [k \in DOMAIN idx |-> v.vals[idx[k]]])

\* TapeRecorder.__getattr__ for a canonical blade name (bitmask B)
TapeCoef(c, v, B) ==
  IF \E i \in DOMAIN v.keys : v.keys[i] = B
  THEN LET i == CHOOSE i \in DOMAIN v.keys : v.keys[i] = B
       IN  SV(<<IF CoefKey = "scalar" THEN 0 ELSE B>>, <<v.vals[i]>>)
  ELSE SV(<<0>>, <<RZero>>)

\* inverse of a stored single blade a*E with E*E = s # 0:  (s/a) E   (the model checker only uses negative powers of such operands;
\* general inverses are decided by certificates on the real library, C07)
TapeInv(c, v) == SV(v.keys, <<RDiv(RConst(Sgn(c, v.keys[1], v.keys[1])), v.vals[1])>>)

RECURSIVE TapePow(_, _, _)
TapePow(c, v, n) ==
  IF n = 0 THEN SV(<<0>>, <<ROne>>)
  ELSE LET base == IF n < 0 /\ PowNeg = "inverse" THEN TapeInv(c, v) ELSE v
           k == IF n < 0 THEN 0 - n ELSE n
           F[i \in 1 .. k] == IF i = 1 THEN base ELSE CallCompiled(c, "gp", <<F[i - 1], base>>, <<>>)
       IN  IF n < 0 /\ PowNeg = "ignored" THEN v            \* range(1, power) is empty: returns self
           ELSE F[k]

(***************************************************************************)
(* Running the tape of a program tree (same tree format as EvalTree, with   *)
(* the extra nodes  [n |-> "coef", c, b |-> blade]  and a flag `left` on     *)
(* binary nodes whose LEFT child is a number).                                *)
(***************************************************************************)
RECURSIVE TapeRun(_, _, _)
TapeRun(c, tree, args) ==
  IF tree.n = "arg" THEN args[tree.i]
  ELSE IF tree.n = "num" THEN SV(<<0>>, <<tree.v>>)            \* "Assume scalar": keys (0,)
  ELSE IF tree.n = "grade" THEN TapeGrade(c, TapeRun(c, tree.c[1], args), Range(tree.p))
  ELSE IF tree.n = "coef" THEN TapeCoef(c, TapeRun(c, tree.c[1], args), tree.p[1])
  ELSE IF tree.n = "pow" THEN TapePow(c, TapeRun(c, tree.c[1], args), tree.p[1])
  ELSE IF tree.n \in {"dual", "undual"} THEN CallCompiled(c, DualOp(c, tree.n), <<TapeRun(c, tree.c[1], args)>>, <<>>)
  ELSE IF Len(tree.c) = 2 THEN
       LET a == TapeRun(c, tree.c[1], args)
           b == TapeRun(c, tree.c[2], args)
       IN  \* number op tape: python calls the reflected method of the tape
           IF tree.c[1].n = "num" /\ tree.n = "sub" THEN CallCompiled(c, "add", <<CallCompiled(c, "neg", <<b>>, <<>>), a>>, <<>>)  \* __rsub__: other + (-self)
           ELSE IF tree.c[1].n = "num" THEN CallCompiled(c, tree.n, <<b, a>>, <<>>)      \* __rmul__ = gp, __radd__ = add: operands swapped
           ELSE CallCompiled(c, tree.n, <<a, b>>, <<>>)
  ELSE CallCompiled(c, tree.n, <<TapeRun(c, tree.c[1], args)>>, tree.p)

\* semantics of the same tree (coefficient access = the scalar coefficient)
RECURSIVE Sem(_, _, _)
Sem(c, tree, args) ==
  IF tree.n = "arg" THEN args[tree.i]
  ELSE IF tree.n = "num" THEN MR!MVScalar(c.d, tree.v)
  ELSE IF tree.n = "coef" THEN MR!MVScalar(c.d, Sem(c, tree.c[1], args)[tree.p[1]])
  ELSE IF tree.n = "pow" /\ tree.p[1] < 0 THEN MR!MVZero(c.d)       \* (negative powers are compared by certificate, see TapeFaithful)
  ELSE IF tree.n \in {"dual", "undual"} THEN MR!Apply(c, DualOp(c, tree.n), <<Sem(c, tree.c[1], args)>>, <<>>)
  ELSE MR!Apply(c, tree.n, [i \in DOMAIN tree.c |-> Sem(c, tree.c[i], args)], tree.p)

\* the property of one program on one tuple of generic arguments
TapeFaithful(c, tree, argkeys) ==
  LET svs == [i \in DOMAIN argkeys |-> SV(argkeys[i], [j \in DOMAIN argkeys[i] |-> RFromPoly(PVar(i * 1000 + argkeys[i][j] + 1))])]
      dens == [i \in DOMAIN argkeys |-> DenSV(c, svs[i])]
      run == DenSV(c, TapeRun(c, tree, svs))
  IN  IF tree.n = "pow" /\ tree.p[1] < 0
      THEN \* x ** -n: the tape's value times x^n is 1
           MR!SameElement(MR!GP(c, run, MR!GPow(c, Sem(c, tree.c[1], dens), 0 - tree.p[1])), MR!MVOne(c.d))
      ELSE MR!SameElement(run, Sem(c, tree, dens))
=============================================================================
