---------------------------- MODULE TraceInverse ----------------------------
(***************************************************************************)
(* Trace validation of kingdon's inverse GENERATORS at their intermediate   *)
(* level (code -> spec, C07): the harness runs codegen_hitzer_inv,          *)
(* codegen_shirokov_inv and the dispatching codegen_inv on the symbolic     *)
(* operands the library itself would create for a key pattern, evaluates    *)
(* the returned (numerator, denominator) polynomials at an integer point x, *)
(* and logs  [gen, x, num, den].  Clauses:                                    *)
(*   adjugate   x * num = num * x = den * 1                                    *)
(*   hitzer     (num, den) is exactly the pair of InverseModel!HitzerNum/Den   *)
(*   shirokov   (num, den) is the pair of the recursion at SOME index whose    *)
(*              X_i is a scalar (the symbolic run stops where X_i is a scalar   *)
(*              for generic coefficients, the numeric one possibly earlier)     *)
(*   dispatch   closed forms for d < 6, the recursion from d = 6 on              *)
(* Header line as in TraceOps: {kind: "cfg", u, opts}.                           *)
(***************************************************************************)
EXTENDS AlgebraModel, InverseModel, Json, IOUtils

Trace == ndJsonDeserialize(IOEnv.TRACE_FILE)
CC == Compile(BitCfgM(UC(Trace[1].u)))
VARIABLE l

IntMV(c, m) == MI!FromKV(c.d, m.keys, m.vals)
AdjVerdict(c, e) ==
  LET x == IntMV(c, e.x)
      num == IntMV(c, e.num)
      hitzer == MI!SameElement(num, HitzerNum(c, x)) /\ e.den = HitzerDen(c, x)
      shirokov == ValidShirokovPair(c, x, num, e.den)
  IN
  IF e.raised # "" THEN "generator_raised"
  ELSE IF Len(e.num.keys) # Len(e.num.vals) \/ ~MI!StoredOK(c, e.num.keys, e.num.vals) THEN "numerator_not_well_formed"
  ELSE IF ~Adjugate(c, x, num, e.den) THEN "numerator_is_not_the_adjugate_for_the_denominator"
  ELSE IF e.gen = "hitzer" /\ ~hitzer THEN "differs_from_the_closed_form"
  ELSE IF e.gen = "shirokov" /\ ~shirokov THEN "differs_from_the_recursion"
  ELSE IF e.gen = "dispatch" /\ c.d < 6 /\ ~hitzer THEN "dispatch_below_6_is_not_the_closed_form"
  ELSE IF e.gen = "dispatch" /\ c.d >= 6 /\ ~shirokov THEN "dispatch_from_6_is_not_the_recursion"
  ELSE "ok"

Verdict(e) == IF e.kind = "adj" THEN AdjVerdict(CC, e) ELSE "unknown_event_kind"
Init == l = 2
Next == /\ l <= Len(Trace)
        /\ LET v == Verdict(Trace[l]) IN IF v = "ok" THEN TRUE ELSE PrintT(<<"REJECT", Trace[l].id, v>>)
        /\ l' = l + 1
Spec == Init /\ [][Next]_l
AllConsumed == TRUE
=============================================================================
