----------------------------- MODULE TraceChains -----------------------------
(* Trace validation of AdditionChains / power_supply as the real code computes them (C17, C07):
   event {limit, chains:[[v,[chain]]..] (dict order), supply_int:[exponents yielded by power_supply(x, limit)],
          supply_range:[exponents yielded by power_supply(x, (1..limit))]}  with x an exponent-counting object. *)
EXTENDS Integers, Sequences, FiniteSets, TLC, Functions, SequencesExt, Json, IOUtils
AC == INSTANCE AdditionChains WITH limit <- 0, chs <- <<>>, copy <- <<>>, ci <- 0, li <- 0, pc <- ""
Trace == ndJsonDeserialize(IOEnv.TRACE_FILE)
VARIABLE l
Verdict(e) ==
  IF e.raised # "" THEN "raised"
  ELSE IF ~AC!ChainsOK(e.chains, e.limit) THEN "chains_are_not_valid_complete_prefix_closed_addition_chains"
  ELSE IF e.supply_int # AC!ChainOf(e.chains, e.limit) THEN "power_supply_int_does_not_yield_the_powers_of_its_chain"
  ELSE IF e.supply_range # [i \in 1 .. e.limit |-> i] THEN "power_supply_range_does_not_yield_x_to_the_k"
  ELSE "ok"
Init == l = 1
Next == /\ l <= Len(Trace)
        /\ LET v == Verdict(Trace[l]) IN IF v = "ok" THEN TRUE ELSE PrintT(<<"REJECT", Trace[l].id, v>>)
        /\ l' = l + 1
Spec == Init /\ [][Next]_l
==============================================================================
