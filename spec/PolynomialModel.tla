--------------------------- MODULE PolynomialModel ---------------------------
(***************************************************************************)
(* Implementation-shaped model of kingdon's own polynomial arithmetic      *)
(* (polynomial.py), used symbolically while code is generated.              *)
(*                                                                         *)
(* REPRESENTATION (Polynomial.args): a sequence of monomials, a monomial a  *)
(* sequence  <<coefficient, v1, v2, ...>>  with the variables sorted.  In   *)
(* the model a variable is an integer (its rank among the variable names,  *)
(* which python compares as strings) and a coefficient a rational number    *)
(* <<n, d>> (python ints and dyadic floats).                                 *)
(*                                                                         *)
(* TRANSCRIBED: compare (polynomial.py:9-19), Polynomial.__add__ (52-80,    *)
(* two-finger merge), Polynomial.__mul__ (85-114, sorted factor merge then  *)
(* one __add__ per product), __neg__, __eq__ with 0, __bool__.               *)
(* DENOTATION: Den(p) in the field of fractions of Z[variables] (PolyRing). *)
(* The properties: every operator is a homomorphism for Den, and the zero   *)
(* tests (== 0, bool) are exact -- PROVIDED the representation invariant     *)
(* WellFormed holds, which every operator must therefore preserve.           *)
(***************************************************************************)
EXTENDS PolyRing, TLC

QNeg(a) == <<0 - a[1], a[2]>>
QIsZero(a) == a[1] = 0

Coef(mono) == mono[1]
Vars(mono) == SubSeq(mono, 2, Len(mono))

\* compare(a, b): -1 / 0 / 1 ("None" = past the end is modelled by the caller)
RECURSIVE CmpFrom(_, _, _)
CmpFrom(a, b, i) ==
  LET la == Len(a) lb == Len(b) l == IF la < lb THEN la ELSE lb IN
  IF i >= l + 1 THEN la - lb         \* python: for i in range(1, l): ...; return la - lb   (i is 1-based over vars)
  ELSE IF a[i] < b[i] THEN -1 ELSE IF a[i] > b[i] THEN 1 ELSE CmpFrom(a, b, i + 1)
\* python indexes a[i] for i in 1..l-1 (0-based) = positions 2..l (1-based): the variables
Compare(a, b) == CmpFrom(a, b, 2)

\* Polynomial.__add__: merge of two sorted monomial lists
RECURSIVE MergeAdd(_, _, _, _, _)
MergeAdd(p, q, ai, bi, res) ==
  IF ai > Len(p) /\ bi > Len(q) THEN res
  ELSE IF bi > Len(q) THEN MergeAdd(p, q, ai + 1, bi, Append(res, p[ai]))          \* compare(ea, None) = -1
  ELSE IF ai > Len(p) THEN MergeAdd(p, q, ai, bi + 1, Append(res, q[bi]))          \* compare(None, eb) = 1
  ELSE LET diff == Compare(p[ai], q[bi]) IN
       IF diff < 0 THEN MergeAdd(p, q, ai + 1, bi, Append(res, p[ai]))
       ELSE IF diff > 0 THEN MergeAdd(p, q, ai, bi + 1, Append(res, q[bi]))
       ELSE LET c == QAdd(Coef(p[ai]), Coef(q[bi])) IN
            MergeAdd(p, q, ai + 1, bi + 1, IF QIsZero(c) THEN res ELSE Append(res, <<c>> \o Vars(p[ai])))

\* merge of the sorted variable lists of two monomials
RECURSIVE MergeVars(_, _)
MergeVars(x, y) == IF x = <<>> THEN y ELSE IF y = <<>> THEN x
                   ELSE IF Head(x) < Head(y) THEN <<Head(x)>> \o MergeVars(Tail(x), y)
                   ELSE <<Head(y)>> \o MergeVars(x, Tail(y))
MonoTimes(a, b) == <<QMul(Coef(a), Coef(b))>> \o MergeVars(Vars(a), Vars(b))

PolyIsZero(p) == p = <<>> \/ (Len(p) = 1 /\ Len(p[1]) = 1 /\ QIsZero(Coef(p[1])))      \* __eq__ with 0
\* __add__: `if other == 0: return self`, `if self == 0: return other`, else the merge.  (The second
\* shortcut is the repair of the defect this model exposed: without it [[0]] + p kept an explicit zero
\* monomial, WellFormed was not preserved and the zero tests of later products were wrong.)
PolyAdd(p, q) == IF PolyIsZero(q) THEN p ELSE IF PolyIsZero(p) THEN q ELSE MergeAdd(p, q, 1, 1, <<>>)
\* Polynomial.__mul__: zero shortcut, then res = res + Polynomial([C]) for every pair in row-major order
PolyMul(p, q) ==
  IF PolyIsZero(p) \/ PolyIsZero(q) THEN <<>>
  ELSE LET pairs == [k \in 1 .. Len(p) * Len(q) |-> <<((k - 1) \div Len(q)) + 1, ((k - 1) % Len(q)) + 1>>]
           F[k \in 0 .. Len(pairs)] ==
             IF k = 0 THEN <<>> ELSE PolyAdd(F[k - 1], <<MonoTimes(p[pairs[k][1]], q[pairs[k][2]])>>)
       IN  F[Len(pairs)]
PolyNeg(p) == [i \in DOMAIN p |-> <<QNeg(Coef(p[i]))>> \o Vars(p[i])]
\* Polynomial.__bool__
PolyBool(p) == IF Len(p) = 1 THEN ~QIsZero(Coef(p[1])) ELSE p # <<>>

(***************************************************************************)
(* Denotation and representation invariant.                                  *)
(***************************************************************************)
MonoDen(mono) ==
  LET c == QNorm(Coef(mono)) IN
  <<PScale(c[1], (Vars(mono) :> 1)), PConst(c[2])>>
RECURSIVE DenFrom(_, _)
DenFrom(p, i) == IF i > Len(p) THEN RZero ELSE RAdd(MonoDen(p[i]), DenFrom(p, i + 1))
Den(p) == DenFrom(p, 1)
RDen(numer, denom) == RDiv(Den(numer), Den(denom))

Sorted(s) == \A i \in 1 .. Len(s) - 1 : s[i] <= s[i + 1]
WellFormed(p) ==
  /\ \A i \in DOMAIN p : Len(p[i]) >= 1 /\ Sorted(Vars(p[i])) /\ Coef(p[i])[2] # 0
  /\ \A i \in 1 .. Len(p) - 1 : Compare(p[i], p[i + 1]) < 0            \* strictly ascending: no duplicate monomial
  /\ \A i \in DOMAIN p : ~QIsZero(Coef(p[i])) \/ (Len(p) = 1 /\ Len(p[1]) = 1)     \* [[0]] is the only stored zero

\* On well-formed polynomials the zero tests are exact
ZeroTestsExact(p) == /\ PolyIsZero(p) <=> RIsZero(Den(p))
                     /\ PolyBool(p) <=> ~RIsZero(Den(p))

\* Theorems checked by MC_Polynomial on every reachable pair
Homomorphism(p, q) ==
  /\ REq(Den(PolyAdd(p, q)), RAdd(Den(p), Den(q)))
  /\ REq(Den(PolyMul(p, q)), RMul(Den(p), Den(q)))
  /\ REq(Den(PolyNeg(p)), RNeg(Den(p)))
Preservation(p, q) ==
  (WellFormed(p) /\ WellFormed(q)) => WellFormed(PolyAdd(p, q)) /\ WellFormed(PolyMul(p, q)) /\ WellFormed(PolyNeg(p))

(***************************************************************************)
(* RationalPolynomial (polynomial.py:162-297): a pair [numer, denom] of     *)
(* Polynomial representations, with the shortcuts of __add__ (equal         *)
(* denominators; zero / one results) and __mul__ (zero / one operands and   *)
(* results; removal of common factors when numerator and denominator are    *)
(* single monomials), transcribed.                                           *)
(***************************************************************************)
RP(n, d) == [numer |-> n, denom |-> d]
POne1 == <<<<<<1, 1>>>>>>                         \* [[1]]
PolyIsOne(p) == Len(p) = 1 /\ Len(p[1]) = 1 /\ QEq(Coef(p[1]), <<1, 1>>) /\ Coef(p[1])[1] = Coef(p[1])[2]    \* args == [[1]]
RatIsZero(r) == PolyIsZero(r.numer)              \* __eq__ with 0
RatIsOne(r) == PolyIsOne(r.numer) /\ PolyIsOne(r.denom)
RatBool(r) == PolyBool(r.numer)
RatDen(r) == RDiv(Den(r.numer), Den(r.denom))

RatAdd(a, b) ==
  IF RatIsZero(b) THEN a ELSE IF RatIsZero(a) THEN b ELSE
  LET same == Len(a.denom) = Len(b.denom) /\ a.denom = b.denom
      nn == IF same THEN PolyAdd(a.numer, b.numer) ELSE PolyAdd(PolyMul(a.numer, b.denom), PolyMul(b.numer, a.denom))
      nd == IF same THEN a.denom ELSE PolyMul(a.denom, b.denom)
  IN  IF PolyIsZero(nn) THEN RP(<<>>, POne1)
      ELSE IF Len(nn) = Len(nd) /\ nn = nd THEN RP(POne1, POne1)
      ELSE RP(nn, nd)

\* two-pointer removal of the common variables of two monomials (kept: the rest of each)
RECURSIVE Cancel(_, _, _, _, _, _)
Cancel(f1, f2, p1, p2, keep1, keep2) ==
  IF p1 > Len(f1) /\ p2 > Len(f2) THEN <<keep1, keep2>>
  ELSE IF p1 <= Len(f1) /\ p2 <= Len(f2) /\ f1[p1] = f2[p2] THEN Cancel(f1, f2, p1 + 1, p2 + 1, keep1, keep2)
  ELSE IF p2 > Len(f2) \/ (p1 <= Len(f1) /\ f1[p1] < f2[p2]) THEN Cancel(f1, f2, p1 + 1, p2, Append(keep1, f1[p1]), keep2)
  ELSE Cancel(f1, f2, p1, p2 + 1, keep1, Append(keep2, f2[p2]))

RatMul(a, b) ==
  IF RatIsZero(a) THEN a ELSE IF RatIsZero(b) THEN b ELSE IF RatIsOne(b) THEN a ELSE IF RatIsOne(a) THEN b ELSE
  LET numer == PolyMul(a.numer, b.numer)
      denom == PolyMul(a.denom, b.denom)
  IN  IF PolyIsZero(numer) THEN RP(<<<<<<0, 1>>>>>>, POne1)
      ELSE IF Len(numer) = Len(denom) /\ numer = denom THEN RP(POne1, POne1)
      ELSE IF Len(numer) = 1 /\ Len(denom) = 1 THEN
           LET c == Cancel(numer[1], denom[1], 2, 2, <<Coef(numer[1])>>, <<Coef(denom[1])>>) IN RP(<<c[1]>>, <<c[2]>>)
      ELSE RP(numer, denom)
RatNeg(a) == RP(PolyNeg(a.numer), a.denom)
RatInv(a) == RP(a.denom, a.numer)              \* (zero is returned as the number 0 by the code; not modelled)

RatHomomorphism(a, b) ==
  /\ REq(RatDen(RatAdd(a, b)), RAdd(RatDen(a), RatDen(b)))
  /\ REq(RatDen(RatMul(a, b)), RMul(RatDen(a), RatDen(b)))
  /\ REq(RatDen(RatNeg(a)), RNeg(RatDen(a)))
  /\ (~RatIsZero(a) => REq(RatDen(RatInv(a)), RInv(RatDen(a))))
RatZeroTests(r) == /\ RatIsZero(r) <=> RIsZero(RatDen(r))
                   /\ RatBool(r) <=> ~RIsZero(RatDen(r))
RatWellFormed(r) == WellFormed(r.numer) /\ WellFormed(r.denom) /\ ~PolyIsZero(r.denom)
=============================================================================
