--------------------------- MODULE PolynomialModel ---------------------------
(***************************************************************************)
(* Implementation-shaped model of kingdon's own polynomial arithmetic      *)
(* (polynomial.py), used symbolically while code is generated.              *)
(*                                                                         *)
(* REPRESENTATION (Polynomial.args): a sequence of monomials, a monomial a  *)
(* sequence  <<coefficient, v1, v2, ...>>  with the variables sorted.  In   *)
(* the model a variable is an integer (its rank among the variable names,  *)
(* which python compares as strings) and a coefficient a rational number    *)
(* <<n, d>> (python ints and dyadic floats).                                 *)
(*                                                                         *)
(* TRANSCRIBED: compare (polynomial.py:9-19), Polynomial.__add__ (52-80,    *)
(* two-finger merge), Polynomial.__mul__ (85-114, sorted factor merge then  *)
(* one __add__ per product), __neg__, __eq__ with 0, __bool__.               *)
(* DENOTATION: Den(p) in the field of fractions of Z[variables] (PolyRing). *)
(* The properties: every operator is a homomorphism for Den, and the zero   *)
(* tests (== 0, bool) are exact -- PROVIDED the representation invariant     *)
(* WellFormed holds, which every operator must therefore preserve.           *)
(***************************************************************************)
EXTENDS PolyRing, TLC

QNeg(a) == <<0 - a[1], a[2]>>
QIsZero(a) == a[1] = 0

Coef(mono) == mono[1]
Vars(mono) == SubSeq(mono, 2, Len(mono))

\* compare(a, b): -1 / 0 / 1 ("None" = past the end is modelled by the caller)
RECURSIVE CmpFrom(_, _, _)
CmpFrom(a, b, i) ==
  LET la == Len(a) lb == Len(b) l == IF la < lb THEN la ELSE lb IN
  IF i >= l + 1 THEN la - lb         \* python: for i in range(1, l): ...; return la - lb   (i is 1-based over vars)
  ELSE IF a[i] < b[i] THEN -1 ELSE IF a[i] > b[i] THEN 1 ELSE CmpFrom(a, b, i + 1)
\* python indexes a[i] for i in 1..l-1 (0-based) = positions 2..l (1-based): the variables
Compare(a, b) == CmpFrom(a, b, 2)

\* Polynomial.__add__: merge of two sorted monomial lists
RECURSIVE MergeAdd(_, _, _, _, _)
MergeAdd(p, q, ai, bi, res) ==
  IF ai > Len(p) /\ bi > Len(q) THEN res
  ELSE IF bi > Len(q) THEN MergeAdd(p, q, ai + 1, bi, Append(res, p[ai]))          \* compare(ea, None) = -1
  ELSE IF ai > Len(p) THEN MergeAdd(p, q, ai, bi + 1, Append(res, q[bi]))          \* compare(None, eb) = 1
  ELSE LET diff == Compare(p[ai], q[bi]) IN
       IF diff < 0 THEN MergeAdd(p, q, ai + 1, bi, Append(res, p[ai]))
       ELSE IF diff > 0 THEN MergeAdd(p, q, ai, bi + 1, Append(res, q[bi]))
       ELSE LET c == QAdd(Coef(p[ai]), Coef(q[bi])) IN
            MergeAdd(p, q, ai + 1, bi + 1, IF QIsZero(c) THEN res ELSE Append(res, <<c>> \o Vars(p[ai])))

\* merge of the sorted variable lists of two monomials
RECURSIVE MergeVars(_, _)
MergeVars(x, y) == IF x = <<>> THEN y ELSE IF y = <<>> THEN x
                   ELSE IF Head(x) < Head(y) THEN <<Head(x)>> \o MergeVars(Tail(x), y)
                   ELSE <<Head(y)>> \o MergeVars(x, Tail(y))
MonoTimes(a, b) == <<QMul(Coef(a), Coef(b))>> \o MergeVars(Vars(a), Vars(b))

PolyIsZero(p) == p = <<>> \/ (Len(p) = 1 /\ Len(p[1]) = 1 /\ QIsZero(Coef(p[1])))      \* __eq__ with 0
\* __add__: `if other == 0: return self`, `if self == 0: return other`, else the merge.  (The second
\* shortcut is the repair of the defect this model exposed: without it [[0]] + p kept an explicit zero
\* monomial, WellFormed was not preserved and the zero tests of later products were wrong.)
PolyAdd(p, q) == IF PolyIsZero(q) THEN p ELSE IF PolyIsZero(p) THEN q ELSE MergeAdd(p, q, 1, 1, <<>>)
\* Polynomial.__mul__: zero shortcut, then res = res + Polynomial([C]) for every pair in row-major order
PolyMul(p, q) ==
  IF PolyIsZero(p) \/ PolyIsZero(q) THEN <<>>
  ELSE LET pairs == [k \in 1 .. Len(p) * Len(q) |-> <<((k - 1) \div Len(q)) + 1, ((k - 1) % Len(q)) + 1>>]
           F[k \in 0 .. Len(pairs)] ==
             IF k = 0 THEN <<>> ELSE PolyAdd(F[k - 1], <<MonoTimes(p[pairs[k][1]], q[pairs[k][2]])>>)
       IN  F[Len(pairs)]
PolyNeg(p) == [i \in DOMAIN p |-> <<QNeg(Coef(p[i]))>> \o Vars(p[i])]
\* Polynomial.__bool__
PolyBool(p) == IF Len(p) = 1 THEN ~QIsZero(Coef(p[1])) ELSE p # <<>>

(***************************************************************************)
(* Denotation and representation invariant.                                  *)
(***************************************************************************)
MonoDen(mono) ==
  LET c == QNorm(Coef(mono)) IN
  <<PScale(c[1], (Vars(mono) :> 1)), PConst(c[2])>>
RECURSIVE DenFrom(_, _)
DenFrom(p, i) == IF i > Len(p) THEN RZero ELSE RAdd(MonoDen(p[i]), DenFrom(p, i + 1))
Den(p) == DenFrom(p, 1)
RDen(numer, denom) == RDiv(Den(numer), Den(denom))

Sorted(s) == \A i \in 1 .. Len(s) - 1 : s[i] <= s[i + 1]
WellFormed(p) ==
  /\ \A i \in DOMAIN p : Len(p[i]) >= 1 /\ Sorted(Vars(p[i])) /\ Coef(p[i])[2] # 0
  /\ \A i \in 1 .. Len(p) - 1 : Compare(p[i], p[i + 1]) < 0            \* strictly ascending: no duplicate monomial
  /\ \A i \in DOMAIN p : ~QIsZero(Coef(p[i])) \/ (Len(p) = 1 /\ Len(p[1]) = 1)     \* [[0]] is the only stored zero

\* On well-formed polynomials the zero tests are exact
ZeroTestsExact(p) == /\ PolyIsZero(p) <=> RIsZero(Den(p))
                     /\ PolyBool(p) <=> ~RIsZero(Den(p))

\* Theorems checked by MC_Polynomial on every reachable pair
Homomorphism(p, q) ==
  /\ REq(Den(PolyAdd(p, q)), RAdd(Den(p), Den(q)))
  /\ REq(Den(PolyMul(p, q)), RMul(Den(p), Den(q)))
  /\ REq(Den(PolyNeg(p)), RNeg(Den(p)))
Preservation(p, q) ==
  (WellFormed(p) /\ WellFormed(q)) => WellFormed(PolyAdd(p, q)) /\ WellFormed(PolyMul(p, q)) /\ WellFormed(PolyNeg(p))
=============================================================================
