----------------------------- MODULE CliffordRef -----------------------------
(***************************************************************************)
(* Reference layer: Clifford algebras of diagonal metrics, defined from    *)
(* first principles, with no reference to kingdon's algorithms.             *)
(*                                                                         *)
(* Generators are bit positions 0..d-1; a blade is the bitmask of a set of *)
(* generators.  A *configuration* c (bit level) is a record                 *)
(*   d     : number of generators                                           *)
(*   sig   : sequence of length d,   sig[j+1] \in {-1,0,1} = e_j * e_j      *)
(*   spell : sequence of length 2^d, spell[B+1] = the spelling of blade B,  *)
(*           a permutation of Bits(B): the named blade is the ORDERED       *)
(*           product of the generators in its spelling                      *)
(*   order : the canonical order of the blades (a permutation of 0..2^d-1) *)
(***************************************************************************)
EXTENDS Integers, Sequences, FiniteSets, FiniteSetsExt, SequencesExt, Functions, Bitwise, TLC

Pow2(n) == 2 ^ n
Bit(B, j) == (B \div Pow2(j)) % 2
Bits(d, B) == {j \in 0 .. d - 1 : Bit(B, j) = 1}
Blades(d) == 0 .. Pow2(d) - 1
Popcount(d, B) == Cardinality(Bits(d, B))
BinOf(S) == FoldSet(LAMBDA j, acc : acc + Pow2(j), 0, S)
\* bitwise operations on bitmasks (Bitwise has Java overrides; SetXor is the set-level
\* definition they are checked against in MC_Ref)
BXor(d, A, B) == A ^^ B
BAnd(d, A, B) == A & B
BOr(d, A, B) == A | B
SetXor(d, A, B) == BinOf((Bits(d, A) \cup Bits(d, B)) \ (Bits(d, A) \cap Bits(d, B)))
BitwiseIsSetwise(d) == \A A, B \in Blades(d) :
   /\ BXor(d, A, B) = SetXor(d, A, B)
   /\ BAnd(d, A, B) = BinOf(Bits(d, A) \cap Bits(d, B))
   /\ BOr(d, A, B) = BinOf(Bits(d, A) \cup Bits(d, B))
Pss(d) == Pow2(d) - 1
Compl(d, B) == Pss(d) - B

Parity(n) == IF n % 2 = 0 THEN 1 ELSE -1

(***************************************************************************)
(* Sign of the product of two ASCENDING blades: moving every generator of  *)
(* B leftwards past the larger generators of A costs one transposition     *)
(* each; equal neighbours contract to the metric.                           *)
(***************************************************************************)
AscSign(d, sig, A, B) ==
  LET SA == Bits(d, A)
      SB == Bits(d, B)
      inv == Cardinality({p \in SA \X SB : p[1] > p[2]})
      met == FoldSet(LAMBDA g, acc : acc * sig[g + 1], 1, SA \cap SB)
  IN  Parity(inv) * met

(***************************************************************************)
(* Orientation of a spelling: parity of its inversions.                     *)
(***************************************************************************)
Orient(sp) == Parity(Cardinality({p \in (DOMAIN sp) \X (DOMAIN sp) : p[1] < p[2] /\ sp[p[1]] > sp[p[2]]}))

Ori(c, B) == Orient(c.spell[B + 1])

(***************************************************************************)
(* "Compiled" configuration: the record c extended with explicit tables    *)
(* (evaluated once with TLCEval) so that products do not recompute signs.  *)
(*   signs[<<A, B>>] = RefSign(c, A, B),  pop[B] = grade of blade B          *)
(***************************************************************************)

(***************************************************************************)
(* The product of two NAMED blades:  N_A N_B = RefSign * N_(A xor B).       *)
(***************************************************************************)
RefSign(c, A, B) ==
  Ori(c, A) * Ori(c, B) * Ori(c, BXor(c.d, A, B)) * AscSign(c.d, c.sig, A, B)

Compile(c) ==
  [d |-> c.d, sig |-> c.sig, spell |-> c.spell, order |-> c.order,
   \* explicit table up to d = 6; above that entries are computed on demand
   signs |-> IF c.d <= 6 THEN TLCEval([p \in Blades(c.d) \X Blades(c.d) |-> RefSign(c, p[1], p[2])])
             ELSE [p \in Blades(c.d) \X Blades(c.d) |-> RefSign(c, p[1], p[2])],
   pop |-> TLCEval([B \in Blades(c.d) |-> Popcount(c.d, B)])]
Sgn(cc, A, B) == cc.signs[<<A, B>>]

(***************************************************************************)
(* An independent definition by rewriting words of generators, used to     *)
(* guard the closed forms above: reduce a word (sequence of generators,    *)
(* repetition allowed) to  sign * ascending blade  by insertion.            *)
(***************************************************************************)
RECURSIVE InsertGen(_, _, _, _)
\* insert generator g at the right end of  s * (ascending word w): <<sign, word>>
InsertGen(sig, s, w, g) ==
  IF w = <<>> THEN <<s, <<g>>>>
  ELSE LET last == w[Len(w)] IN
       IF last < g THEN <<s, Append(w, g)>>
       ELSE IF last = g THEN <<s * sig[g + 1], SubSeq(w, 1, Len(w) - 1)>>
       ELSE LET r == InsertGen(sig, 0 - s, SubSeq(w, 1, Len(w) - 1), g)   \* swap: -1
            IN  IF r[1] = 0 THEN <<0, <<>>>> ELSE <<r[1], Append(r[2], last)>>

RECURSIVE ReduceWord(_, _, _, _)
ReduceWord(sig, s, w, rest) ==
  IF rest = <<>> \/ s = 0 THEN <<s, w>>
  ELSE LET r == InsertGen(sig, s, w, Head(rest)) IN ReduceWord(sig, r[1], r[2], Tail(rest))

WordValue(sig, word) == ReduceWord(sig, 1, <<>>, word)     \* <<sign, ascending word>>
WordBlade(v) == BinOf(Range(v[2]))

\* careful: appending `last` after a recursive insert keeps the word ascending only
\* because `last` is larger than everything before it; InsertGen relies on w ascending.

Asc(d, B) == SetToSortSeq(Bits(d, B), <)

(***************************************************************************)
(* Theorems of the reference layer (checked by TLC for every configuration *)
(* the model checker enumerates; see MC_Clifford).                          *)
(***************************************************************************)
WellFormedCfg(c) ==
  /\ c.d \in Nat /\ Len(c.sig) = c.d /\ \A j \in 1 .. c.d : c.sig[j] \in {-1, 0, 1}
  /\ Len(c.spell) = Pow2(c.d)
  /\ \A B \in Blades(c.d) : /\ Range(c.spell[B + 1]) = Bits(c.d, B)
                            /\ Len(c.spell[B + 1]) = Popcount(c.d, B)
  /\ Len(c.order) = Pow2(c.d) /\ Range(c.order) = Blades(c.d)

\* the closed forms agree with word rewriting
ClosedFormIsRewriting(c) ==
  /\ \A B \in Blades(c.d) :
        LET v == WordValue(c.sig, c.spell[B + 1]) IN v[1] = Ori(c, B) /\ WordBlade(v) = B
  /\ \A A, B \in Blades(c.d) :
        LET v == WordValue(c.sig, Asc(c.d, A) \o Asc(c.d, B))
        IN  /\ v[1] = AscSign(c.d, c.sig, A, B)
            /\ (v[1] # 0 => WordBlade(v) = BXor(c.d, A, B))

\* a named blade is the ordered product of its generators, and the product of
\* two named blades is the reduction of the concatenated spellings
NameIsOrderedProduct(c) ==
  \A A, B \in Blades(c.d) :
     LET v == WordValue(c.sig, c.spell[A + 1] \o c.spell[B + 1])
     IN  v[1] = RefSign(c, A, B) * Ori(c, BXor(c.d, A, B))

Squares(c) == \A j \in 0 .. c.d - 1 : RefSign(c, Pow2(j), Pow2(j)) = c.sig[j + 1]

Anticommute(c) ==
  \A i, j \in 0 .. c.d - 1 : i # j =>
     RefSign(c, Pow2(i), Pow2(j)) = 0 - RefSign(c, Pow2(j), Pow2(i))
     /\ RefSign(c, Pow2(i), Pow2(j)) # 0

Associative(c) ==
  \A A, B, C \in Blades(c.d) :
     RefSign(c, A, B) * RefSign(c, BXor(c.d, A, B), C)
       = RefSign(c, B, C) * RefSign(c, A, BXor(c.d, B, C))

UnitIsIdentity(c) == \A A \in Blades(c.d) : RefSign(c, 0, A) = 1 /\ RefSign(c, A, 0) = 1

CliffordRelations(c) ==
  /\ Squares(c) /\ Anticommute(c) /\ Associative(c) /\ UnitIsIdentity(c)

(***************************************************************************)
(* Default spelling / order for a given d (ascending generators, blades    *)
(* ordered by grade then lexicographically by spelling).                    *)
(***************************************************************************)
RECURSIVE SeqLess(_, _)
SeqLess(s, t) == IF s = <<>> THEN t # <<>> ELSE IF t = <<>> THEN FALSE
                 ELSE IF Head(s) # Head(t) THEN Head(s) < Head(t)
                 ELSE SeqLess(Tail(s), Tail(t))

DefaultSpell(d) == [i \in 1 .. Pow2(d) |-> Asc(d, i - 1)]
DefaultOrder(d) ==
  SetToSortSeq(Blades(d),
               LAMBDA A, B : \/ Popcount(d, A) < Popcount(d, B)
                             \/ /\ Popcount(d, A) = Popcount(d, B)
                                /\ SeqLess(Asc(d, A), Asc(d, B)))
DefaultCfg(d, sig) == [d |-> d, sig |-> sig, spell |-> DefaultSpell(d), order |-> DefaultOrder(d)]
=============================================================================
