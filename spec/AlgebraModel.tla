---------------------------- MODULE AlgebraModel ----------------------------
(***************************************************************************)
(* Implementation-shaped model of kingdon's Algebra construction            *)
(* (algebra.py, __post_init__, _prepare_signs/_compute_sign, _swap_blades, *)
(* _blade2canon, cayley, indices_for_grade(s), type_number), and the map   *)
(* from the USER-level configuration -- what is passed to Algebra(...) --  *)
(* to the bit-level configuration of CliffordRef.                           *)
(*                                                                         *)
(* A user-level configuration u is a record                                 *)
(*   mode  : "pqr" or "sig"                                                 *)
(*   p,q,r : naturals (mode "pqr")                                          *)
(*   sig   : sequence over {-1,0,1} (mode "sig")                            *)
(*   start : start index, or -1 when not given                              *)
(*   basis : <<>> (default basis) or the custom basis: a sequence of blade  *)
(*           names, each name the sequence of its digits (the leading 'e'  *)
(*           dropped), e.g. "e20" = <<2,0>>, "e" = <<>>                      *)
(***************************************************************************)
EXTENDS CliffordRef

Rep(x, n) == [i \in 1 .. n |-> x]

\* algebra.py:135-145
UserSignature(u) ==
  IF u.mode = "sig" THEN u.sig
  ELSE IF u.r = 1 THEN Rep(0, u.r) \o Rep(1, u.p) \o Rep(-1, u.q)     \* PGA: null generator first
       ELSE Rep(1, u.p) \o Rep(-1, u.q) \o Rep(0, u.r)
CountOf(s, v) == Cardinality({i \in DOMAIN s : s[i] = v})
Dim(u) == Len(UserSignature(u))
NullCount(u) == CountOf(UserSignature(u), 0)

\* the grade-1 names of a custom basis, in basis order (algebra.py:157)
Vecs(u) == SelectSeq(u.basis, LAMBDA n : Len(n) = 1)
VecNames(u) == [j \in 1 .. Len(Vecs(u)) |-> Vecs(u)[j][1]]

\* algebra.py:147-148, 158
StartIndex(u) ==
  IF u.basis # <<>> THEN Min(Range(VecNames(u)))
  ELSE IF u.start # -1 THEN u.start
  ELSE IF NullCount(u) = 1 THEN 0 ELSE 1

\* name (digit) of the generator at bit position j (0-based)
GenName(u, j) == IF u.basis # <<>> THEN VecNames(u)[j + 1] ELSE j + StartIndex(u)

\* admissibility of a custom basis: the three asserts of algebra.py:154-156 plus what
\* they silently presuppose (every blade of the algebra named exactly once, from the
\* declared generators, and a metric entry for every generator name)
Admissible(u) ==
  /\ \A i \in 1 .. Len(UserSignature(u)) : UserSignature(u)[i] \in {-1, 0, 1}
  /\ u.basis # <<>> =>
      /\ Len(u.basis) = Pow2(Dim(u))
      /\ \A i \in 1 .. Len(u.basis) - 1 : Len(u.basis[i]) <= Len(u.basis[i + 1])
      /\ Len(Vecs(u)) = Dim(u)
      /\ Cardinality(Range(VecNames(u))) = Dim(u)
      /\ \A n \in Range(VecNames(u)) : n - StartIndex(u) \in 0 .. Dim(u) - 1
      /\ \A i \in 1 .. Len(u.basis) :
            /\ Range(u.basis[i]) \subseteq Range(VecNames(u))
            /\ Cardinality(Range(u.basis[i])) = Len(u.basis[i])
      /\ Cardinality({Range(u.basis[i]) : i \in 1 .. Len(u.basis)}) = Len(u.basis)

(***************************************************************************)
(* The COMPILED model m of a user-level configuration: explicit tables,    *)
(* evaluated once (TLCEval), which every operator below takes.              *)
(*   d, usig, start, custom, basis                                          *)
(*   gen   : sequence, gen[j+1] = name of the generator at bit j            *)
(*   names : sequence, names[B+1] = canonical name of blade B (bin2canon)   *)
(*   order : canonical order of the blades (iteration order of canon2bin)   *)
(***************************************************************************)
UC(u) ==
  LET usig == UserSignature(u)
      d == Len(usig)
      start == StartIndex(u)
      gen == TLCEval([j \in 1 .. d |-> GenName(u, j - 1)])
      pos(n) == CHOOSE j \in 0 .. d - 1 : gen[j + 1] = n
      nbin(name) == BinOf({pos(name[i]) : i \in DOMAIN name})
      defname(B) == LET a == Asc(d, B) IN [i \in DOMAIN a |-> gen[a[i] + 1]]
      names == IF u.basis = <<>> THEN TLCEval([i \in 1 .. Pow2(d) |-> defname(i - 1)])
               ELSE TLCEval([i \in 1 .. Pow2(d) |->
                               u.basis[CHOOSE k \in DOMAIN u.basis : nbin(u.basis[k]) = i - 1]])
      pop == TLCEval([B \in Blades(d) |-> Popcount(d, B)])
      order == IF u.basis = <<>> THEN
                  TLCEval(SetToSortSeq(Blades(d),
                             LAMBDA A, B : \/ pop[A] < pop[B]
                                           \/ pop[A] = pop[B] /\ SeqLess(names[A + 1], names[B + 1])))
               ELSE TLCEval([i \in DOMAIN u.basis |-> nbin(u.basis[i])])
  IN  [d |-> d, usig |-> usig, start |-> start, custom |-> (u.basis # <<>>), basis |-> u.basis,
       gen |-> gen, names |-> names, order |-> order]

\* bit position of the generator with a given name; -1 when there is none
GenPos(m, n) == LET S == {j \in 0 .. m.d - 1 : m.gen[j + 1] = n}
                IN  IF S = {} THEN -1 ELSE CHOOSE j \in S : TRUE
\* bitmask of a name (sequence of generator names)
NameBin(m, name) == BinOf({GenPos(m, name[i]) : i \in DOMAIN name})
\* spelling (bit positions) of a name
NameSpelling(m, name) == [i \in DOMAIN name |-> GenPos(m, name[i])]
\* bin2canon: bitmask -> name
CanonName(m, B) == m.names[B + 1]
\* canon2bin iteration order (canonical order of blades): algebra.py:160-168
CanonOrder(m) == m.order
\* metric of the generator at bit j: signature[int(name) - start_index]  (algebra.py:285)
BitMetric(m, j) == m.usig[m.gen[j + 1] - m.start + 1]

(***************************************************************************)
(* The bit-level configuration denoted by u: what the user ASKED for.       *)
(***************************************************************************)
BitCfgM(m) ==
  [d |-> m.d,
   sig |-> TLCEval([j \in 1 .. m.d |-> BitMetric(m, j - 1)]),
   spell |-> TLCEval([i \in 1 .. Pow2(m.d) |-> NameSpelling(m, CanonName(m, i - 1))]),
   order |-> m.order]
BitCfg(u) == BitCfgM(UC(u))

(***************************************************************************)
(* _swap_blades (algebra.py:505-538), transcribed step by step.  Blades are *)
(* sequences of characters (here: generator names).  Result:                *)
(*   <<swaps, resulting blade, eliminated>>                                  *)
(***************************************************************************)
IndexOf(s, x) == CHOOSE i \in 1 .. Len(s) : s[i] = x /\ \A k \in 1 .. i - 1 : s[k] # x
RemoveAtIdx(s, i) == SubSeq(s, 1, i - 1) \o SubSeq(s, i + 1, Len(s))
InsertAtIdx(s, i, x) == SubSeq(s, 1, i - 1) \o <<x>> \o SubSeq(s, i, Len(s))

RECURSIVE SwapPhase1(_, _, _, _)
\* for char in blade2: ...
SwapPhase1(b1, b2, swaps, elim) ==
  IF b2 = <<>> THEN <<swaps, b1, elim>>
  ELSE LET ch == Head(b2) IN
       IF ch \notin Range(b1)
       THEN SwapPhase1(Append(b1, ch), Tail(b2), swaps, elim)
       ELSE LET idx == IndexOf(b1, ch) IN            \* 1-based; python idx = idx - 1
            SwapPhase1(RemoveAtIdx(b1, idx), Tail(b2), swaps + (Len(b1) - idx), Append(elim, ch))

RECURSIVE SwapPhase2(_, _, _, _)
\* for i, char in enumerate(target): idx = blade1.index(char); blade1.insert(i, blade1.pop(idx)); swaps += idx - i
SwapPhase2(b1, target, i, swaps) ==
  IF i > Len(target) THEN <<swaps, b1>>
  ELSE LET idx == IndexOf(b1, target[i])
           moved == InsertAtIdx(RemoveAtIdx(b1, idx), i, target[i])
       IN  SwapPhase2(moved, target, i + 1, swaps + (idx - i))

SwapBlades(blade1, blade2, target) ==
  LET r1 == SwapPhase1(blade1, blade2, 0, <<>>) IN
  IF target = <<>> THEN r1
  ELSE LET r2 == SwapPhase2(r1[2], target, 1, r1[1]) IN <<r2[1], r2[2], r1[3]>>

\* _compute_sign (algebra.py:274-286)
ImplSign(m, I, J) ==
  LET eI == CanonName(m, I)
      eJ == CanonName(m, J)
      r == SwapBlades(eI, eJ, CanonName(m, BXor(m.d, I, J)))
      s0 == Parity(r[1])
  IN  FoldSet(LAMBDA i, acc : acc * m.usig[r[3][i] - m.start + 1], s0, DOMAIN r[3])

\* _blade2canon (algebra.py:469-479): <<canonical name, swaps>>, or <<NoBlade, 0>> when the
\* spelling names no blade of the algebra
NoBlade == <<-1>>          \* (the code returns the name e{2**d} of a blade outside the algebra)
Blade2Canon(m, name) ==
  IF \E i \in 1 .. Pow2(m.d) : CanonName(m, i - 1) = name THEN <<name, 0>>
  ELSE IF \E k \in DOMAIN name : GenPos(m, name[k]) = -1 THEN <<NoBlade, 0>>
  ELSE LET canon == CanonName(m, NameBin(m, name))
           r == SwapBlades(name, <<>>, canon)
       IN  <<canon, r[1]>>

\* cayley (algebra.py:296-306): <<sign, name of I xor J>>  (sign 0 = the string '0')
ImplCayley(m, I, J) == <<ImplSign(m, I, J), CanonName(m, BXor(m.d, I, J))>>

\* indices_for_grade (algebra.py:218-228): canonical order restricted to one grade
IndicesForGrade(m, g) == SelectSeq(CanonOrder(m), LAMBDA B : Popcount(m.d, B) = g)
RECURSIVE ConcatGrades(_, _)
ConcatGrades(m, gs) == IF gs = <<>> THEN <<>> ELSE IndicesForGrade(m, Head(gs)) \o ConcatGrades(m, Tail(gs))
IndicesForGrades(m, gs) == ConcatGrades(m, SetToSortSeq(gs, <))

\* type_number (multivector.py:129-131): bit i set iff the i-th blade in canonical order is stored
TypeNumber(m, keyset) ==
  LET ord == CanonOrder(m) IN
  FoldSet(LAMBDA i, acc : IF ord[i] \in keyset THEN acc + Pow2(i - 1) ELSE acc, 0, DOMAIN ord)

(***************************************************************************)
(* Refinement theorems (checked by MC_Algebra for every admissible u the   *)
(* model checker enumerates):                                                *)
(***************************************************************************)
\* kingdon's swap-count sign is the Clifford sign of the named blades
SignRefinement(u) ==
  LET m == UC(u)
      c == BitCfgM(m) IN
  \A I, J \in Blades(c.d) : ImplSign(m, I, J) = RefSign(c, I, J)

\* every permuted spelling of every blade gets the parity of the permutation
SpellingRefinement(u, spellings) ==
  LET m == UC(u)
      c == BitCfgM(m) IN
  \A name \in spellings :
     LET r == Blade2Canon(m, name)
         B == NameBin(m, name)
     IN  /\ r[1] = CanonName(m, B)
         /\ Parity(r[2]) = Orient(NameSpelling(m, name)) * Ori(c, B)

BitCfgWellFormed(u) == WellFormedCfg(BitCfg(u))

(***************************************************************************)
(* C14: a custom basis is a pure relabelling.  u0 = the default-basis       *)
(* configuration with the signature and start index of u.  Phi maps the    *)
(* blade named n1 n2 .. nk in u to  (parity of sorting the names) * the     *)
(* ascending blade with the same generator names in u0.                      *)
(***************************************************************************)
DefaultOf(u) == [mode |-> "sig", p |-> 0, q |-> 0, r |-> 0, sig |-> UserSignature(u), start |-> StartIndex(u), basis |-> <<>>]
\* blade B of m (custom)  ->  bitmask in m0 (default): same generator NAMES
PhiBlade(m, m0, B) == BinOf({GenPos(m0, CanonName(m, B)[i]) : i \in DOMAIN CanonName(m, B)})
\* orientation of the custom name relative to the default (ascending) name
PhiSign(m, m0, B) == Orient(NameSpelling(m0, CanonName(m, B)))
RelabelIsIsomorphism(u) ==
  LET m == UC(u)
      m0 == UC(DefaultOf(u))
      c == BitCfgM(m)
      c0 == BitCfgM(m0) IN
  /\ {PhiBlade(m, m0, B) : B \in Blades(m.d)} = Blades(m.d)
  /\ \A A, B \in Blades(m.d) :
        RefSign(c, A, B) * PhiSign(m, m0, BXor(m.d, A, B))
          = PhiSign(m, m0, A) * PhiSign(m, m0, B) * RefSign(c0, PhiBlade(m, m0, A), PhiBlade(m, m0, B))
        /\ PhiBlade(m, m0, BXor(m.d, A, B)) = BXor(m.d, PhiBlade(m, m0, A), PhiBlade(m, m0, B))
\* two configurations describe the same algebra for the user: same metric per generator name,
\* same blade names in the same order
SameAlgebraModel(ua, ub) ==
  LET ma == UC(ua) mb == UC(ub) IN
  ma.usig = mb.usig /\ ma.start = mb.start /\ ma.names = mb.names /\ ma.order = mb.order
\* same metric, spellings and order of the blades at bit level; only the start index (the digits used
\* in the names of a default basis) may differ.  The repository's own tests treat such algebras as
\* equal (tests/test_kingdon.py::test_start_index), so neither outcome is demanded for them.
SameUpToStartIndex(ua, ub) ==
  LET ca == BitCfg(ua) cb == BitCfg(ub) IN
  ca.d = cb.d /\ ca.sig = cb.sig /\ ca.spell = cb.spell /\ ca.order = cb.order /\ (ua.basis = <<>>) = (ub.basis = <<>>)

\* the number of distinct type numbers equals the number of key sets (names are injective
\* in the key SET -- and only in the set: this is the deviation C09 turns on)
TypeNumberInjectiveOnSets(u) ==
  LET m == UC(u) IN
  \A S, T \in SUBSET Blades(m.d) : TypeNumber(m, S) = TypeNumber(m, T) => S = T
=============================================================================
