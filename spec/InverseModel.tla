---------------------------- MODULE InverseModel ----------------------------
(***************************************************************************)
(* Implementation-shaped model of kingdon's inverse generators (C07):       *)
(*   codegen_hitzer_inv    (codegen.py:316-348)  closed forms for d <= 5     *)
(*   codegen_shirokov_inv  (codegen.py:350-380)  Faddeev-LeVerrier style      *)
(*                         recursion, any d (used for d >= 6)                 *)
(*   codegen_inv           (codegen.py:290-314)  the dispatch  d < 6 / d >= 6 *)
(* transcribed over the INTEGER instance of the reference algebra.  Both      *)
(* generators return a pair (numerator multivector, scalar denominator); the  *)
(* inverse is numerator / denominator.  What must hold, and what TLC checks   *)
(* for every enumerated operand (MC_Inverse):                                  *)
(*   Adjugate      x * num = num * x = den * 1      (so num/den is a two-sided *)
(*                 inverse whenever den # 0)                                   *)
(*   DenIsScalarOf den = scalar part of x * num  (hitzer: x.sp(num).e)         *)
(*   Terminates    X_N is a scalar for N = 2^ceil(d/2)  (Cayley-Hamilton), so   *)
(*                 the recursion stops at a non-zero scalar or falls through    *)
(*                 with (0, 0)                                                    *)
(*   ExactDivision every  N * s / i  of the recursion is an exact integer       *)
(*   NoInverseIffDenZero   den = 0  =>  x is a zero divisor (x * num = 0 with   *)
(*                 num # 0, or x has no inverse for another reason): the model   *)
(*                 checks  den = 0 /\ num # 0  =>  x * num = 0                   *)
(* The recorded (numerator, denominator) pairs of the REAL generators are       *)
(* validated against these definitions by TraceInverse.                          *)
(***************************************************************************)
EXTENDS CliffordRef

MI == INSTANCE MultivectorRef WITH
        CZero <- 0, COne <- 1, CAdd <- LAMBDA a, b : a + b, CMul <- LAMBDA a, b : a * b,
        CNeg <- LAMBDA a : 0 - a, CEq <- LAMBDA a, b : a = b, CScale <- LAMBDA k, a : k * a

Conj(c, x) == MI!MVConjugate(c, x)
Rev(c, x) == MI!MVReverse(c, x)
G(c, x, y) == MI!GP(c, x, y)

\* codegen_hitzer_inv: the numerator, branch by branch
HitzerNum(c, x) ==
  CASE c.d = 0 -> MI!MVOne(0)
    [] c.d = 1 -> MI!MVInvolute(c, x)
    [] c.d = 2 -> Conj(c, x)
    [] c.d = 3 -> LET xc == Conj(c, x) IN G(c, xc, Rev(c, G(c, x, xc)))
    [] c.d = 4 -> LET xc == Conj(c, x)
                      xxc == G(c, x, xc)
                  IN  G(c, xc, MI!Sub(xxc, MI!Scale(2, MI!GradePart(c, xxc, {3, 4}))))
    [] c.d = 5 -> LET xc == Conj(c, x)
                      xxc == G(c, x, xc)
                      combo == G(c, xc, Rev(c, xxc))
                      xcombo == G(c, x, combo)
                  IN  G(c, combo, MI!Sub(xcombo, MI!Scale(2, MI!GradePart(c, xcombo, {1, 4}))))
\* denom = (x.sp(num)).e
HitzerDen(c, x) == MI!SP(c, x, HitzerNum(c, x))[0]

IsScalarMV(x) == MI!Supp(x) \subseteq {0}
ScalarOf(d, a) == MI!MVScalar(d, a)

(***************************************************************************)
(* codegen_shirokov_inv.  N = 2^((d+1) div 2); powers[i] = x^i;              *)
(*   X_i = x^i - sum_{j=1}^{i-1} c_j x^(i-j),   c_i = N * <X_i>_0 / i          *)
(* The loop stops at the first i whose X_i is a scalar; adj = X_(i-1) - c_(i-1)*)
(* (the unit for i = 1), den = <X_i>_0.  In the code "is a scalar" is decided *)
(* on the STORED blades of a symbolic multivector (an exact zero test of the   *)
(* polynomial coefficients, C17); numerically stored zeros make the real loop  *)
(* run longer, which yields another valid pair -- see ValidShirokovPair.       *)
(***************************************************************************)
ShN(d) == Pow2((d + 1) \div 2)
ShStep(c, x, i, pw, cs) ==                  \* X_i from the powers pw[1..i] and c_1..c_(i-1)
  LET F[j \in 0 .. i - 1] == IF j = 0 THEN pw[i] ELSE MI!Sub(F[j - 1], MI!Scale(cs[j], pw[i - j]))
  IN  F[i - 1]
\* the whole run as a sequence of records [X, c, exact]
ShRun(c, x) ==
  LET N == ShN(c.d)
      pw[i \in 1 .. N] == IF i = 1 THEN x ELSE G(c, pw[i - 1], x)
      R[i \in 0 .. N] ==
        IF i = 0 THEN <<>>
        ELSE LET prev == R[i - 1]
                 cs == [j \in 1 .. i - 1 |-> prev[j].c]
                 X == ShStep(c, x, i, pw, cs)
                 s == X[0]
             IN  Append(prev, [X |-> X, c |-> IF s = 0 THEN 0 ELSE (N * s) \div i, exact |-> (N * s) % i = 0])
  IN  R[N]
\* The loop breaks at the first X_i whose stored blades are exactly (0,): a NON-ZERO scalar (the zero multivector stores no
\* blade, its grades are () and the loop goes on; then every later X_j is zero as well).  Without a break the code falls
\* through with i = N:  adj = X_N - c_N,  den = <X_N>_0  (= 0, 0 when X_N = 0).
IsNZScalarMV(x) == MI!Supp(x) = {0}
ShStop(c, x) == LET r == ShRun(c, x) IN
                IF \E i \in DOMAIN r : IsNZScalarMV(r[i].X)
                THEN CHOOSE i \in DOMAIN r : IsNZScalarMV(r[i].X) /\ \A j \in 1 .. i - 1 : ~IsNZScalarMV(r[j].X)
                ELSE 0
ShPair(c, x, i) == LET r == ShRun(c, x) IN
                   [num |-> IF i = 1 THEN MI!MVOne(c.d) ELSE MI!Sub(r[i - 1].X, ScalarOf(c.d, r[i - 1].c)), den |-> r[i].X[0]]
ShFallThrough(c, x) == LET r == ShRun(c, x) N == ShN(c.d) IN
                       [num |-> MI!Sub(r[N].X, ScalarOf(c.d, r[N].c)), den |-> r[N].X[0]]
ShirokovNum(c, x) == IF ShStop(c, x) = 0 THEN ShFallThrough(c, x).num ELSE ShPair(c, x, ShStop(c, x)).num
ShirokovDen(c, x) == IF ShStop(c, x) = 0 THEN ShFallThrough(c, x).den ELSE ShPair(c, x, ShStop(c, x)).den
\* The real generator decides "non-zero scalar" on SYMBOLIC coefficients (for all values of a key pattern at once), the model
\* at one integer point: a structurally non-zero scalar may vanish at the point and a structurally non-scalar X_i may be a
\* scalar there.  Every index at which X_i is a scalar at the point therefore gives an admissible pair, and so does the
\* fall-through when X_N vanishes.
ValidShirokovPair(c, x, num, den) ==
  LET r == ShRun(c, x)
      N == ShN(c.d)
      pair(i) == [num |-> IF i = 1 THEN MI!MVOne(c.d) ELSE MI!Sub(r[i - 1].X, ScalarOf(c.d, r[i - 1].c)), den |-> r[i].X[0]]
  IN  \/ \E i \in 1 .. N : IsScalarMV(r[i].X) /\ pair(i).num = num /\ pair(i).den = den
      \/ MI!IsZeroMV(r[N].X) /\ MI!Sub(r[N].X, ScalarOf(c.d, r[N].c)) = num /\ r[N].X[0] = den

\* codegen_inv: the dispatch
InvNum(c, x) == IF c.d < 6 THEN HitzerNum(c, x) ELSE ShirokovNum(c, x)
InvDen(c, x) == IF c.d < 6 THEN HitzerDen(c, x) ELSE ShirokovDen(c, x)

(***************************************************************************)
(* Theorems.  (TLC re-evaluates an operator application at every reference; *)
(* the run of the recursion is therefore bound ONCE per operand in a LET.)    *)
(***************************************************************************)
Adjugate(c, x, num, den) == /\ MI!SameElement(G(c, x, num), ScalarOf(c.d, den))
                            /\ MI!SameElement(G(c, num, x), ScalarOf(c.d, den))
HitzerOK(c, x) == c.d <= 5 => LET hn == HitzerNum(c, x) IN Adjugate(c, x, hn, MI!SP(c, x, hn)[0])
\* the pair of the recursion from ONE evaluation of the run
ShResult(c, x) ==
  LET r == ShRun(c, x)
      N == ShN(c.d)
      stop == IF \E i \in DOMAIN r : IsNZScalarMV(r[i].X)
              THEN CHOOSE i \in DOMAIN r : IsNZScalarMV(r[i].X) /\ \A j \in 1 .. i - 1 : ~IsNZScalarMV(r[j].X) ELSE 0
      k == IF stop = 0 THEN N + 1 ELSE stop            \* fall-through = "index N + 1"
  IN  [num |-> IF k = 1 THEN MI!MVOne(c.d) ELSE MI!Sub(r[k - 1].X, ScalarOf(c.d, r[k - 1].c)),
       den |-> IF stop = 0 THEN r[N].X[0] ELSE r[stop].X[0],
       terminates |-> IsScalarMV(r[N].X),
       exact |-> \A i \in 1 .. N : r[i].exact]
ShirokovTerminates(c, x) == ShResult(c, x).terminates
ShirokovExact(c, x) == ShResult(c, x).exact
ShirokovOK(c, x) == LET s == ShResult(c, x) IN s.terminates /\ s.exact /\ Adjugate(c, x, s.num, s.den)
\* both generators agree on WHICH elements are invertible, and on the inverse (cross-multiplied)
GeneratorsAgree(c, x) ==
  c.d <= 5 => LET hn == HitzerNum(c, x) hd == MI!SP(c, x, hn)[0] s == ShResult(c, x) IN
              /\ (hd = 0) <=> (s.den = 0)
              /\ MI!SameElement(MI!Scale(s.den, hn), MI!Scale(hd, s.num))
\* den = 0 with a non-zero numerator exhibits a zero divisor: no inverse exists
ZeroDenMeansZeroDivisor(c, x) ==
  LET num == IF c.d < 6 THEN HitzerNum(c, x) ELSE ShResult(c, x).num
      den == IF c.d < 6 THEN MI!SP(c, x, num)[0] ELSE ShResult(c, x).den
  IN  (den = 0 /\ ~MI!IsZeroMV(num)) => MI!IsZeroMV(G(c, x, num))
=============================================================================
