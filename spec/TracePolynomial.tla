--------------------------- MODULE TracePolynomial ---------------------------
(***************************************************************************)
(* Trace validation for C17: every recorded operation on kingdon's          *)
(* Polynomial / RationalPolynomial objects is judged on DENOTATIONS          *)
(* (PolynomialModel!Den in the field of fractions of Z[variables]):          *)
(*   homomorphism   Den(result) = Den(a) (+,-,*,/,neg,pow,inv) Den(b)        *)
(*   zero tests     bool(x) <=> Den(x) # 0,  (x == 0) <=> Den(x) = 0         *)
(*   equality       x == y  =>  Den(x) = Den(y)                               *)
(*   tosympy        the sympy expression denotes the same function           *)
(*   frame          the operands are unchanged                                *)
(* and, as model drift only, the stored representation equals the one the   *)
(* transcribed algorithm (PolynomialModel!PolyAdd/PolyMul/PolyNeg) yields.   *)
(* Event: {cls:"P"|"R", op, a, b, n, res, raised, a_after, b_after,           *)
(*         res_bool, res_eq0, a_eq_b, sym:{n,d} }                              *)
(*   P value: [[ [n,d], v...], ...]      R value: {numer: P, denom: P}        *)
(***************************************************************************)
EXTENDS PolynomialModel, Json, IOUtils

Trace == ndJsonDeserialize(IOEnv.TRACE_FILE)
VARIABLE l

\* JSON monomial [[n,d], v1, ...] -> model monomial <<<<n,d>>, v1, ...>> (already in that shape)
DenP(x) == Den(x)
DenV(cls, x) == IF cls = "P" THEN Den(x) ELSE RDiv(Den(x.numer), Den(x.denom))
ZeroDenom(cls, x) == cls = "R" /\ RIsZero(Den(x.denom))

RECURSIVE RPowN(_, _)
RPowN(r, n) == IF n = 0 THEN ROne ELSE RMul(r, RPowN(r, n - 1))

Expected(e, da, db) ==
  CASE e.op = "add" -> RAdd(da, db)
    [] e.op = "sub" -> RSub(da, db)
    [] e.op = "mul" -> RMul(da, db)
    [] e.op = "div" -> RDiv(da, db)
    \* reflected forms: the NUMBER b stands on the left (python calls __radd__, __rsub__, __rmul__, __rtruediv__ of a)
    [] e.op = "radd" -> RAdd(db, da)
    [] e.op = "rsub" -> RSub(db, da)
    [] e.op = "rmul" -> RMul(db, da)
    [] e.op = "rdiv" -> RDiv(db, da)
    [] e.op = "neg" -> RNeg(da)
    [] e.op = "pos" -> da
    [] e.op = "inv" -> RInv(da)
    [] e.op = "pow" -> IF e.n >= 0 THEN RPowN(da, e.n) ELSE RInv(RPowN(da, 0 - e.n))

PolyVerdict(e) ==
  LET da == DenV(e.cls, e.a)
      db == IF e.bnum THEN <<PConst(e.b[1]), PConst(e.b[2])>> ELSE DenV(e.bcls, e.b)
      undefined == (e.op \in {"div"} /\ RIsZero(db)) \/ (e.op = "rdiv" /\ RIsZero(da)) \/ (e.op = "inv" /\ RIsZero(da)) \/ (e.op = "pow" /\ e.n < 0 /\ RIsZero(da))
  IN
  IF undefined THEN "ok"                                  \* division by the zero function: outside the domain
  ELSE IF e.raised # "" THEN "operation_raised"
  ELSE IF ZeroDenom(e.rcls, e.res) THEN "result_has_zero_denominator"
  ELSE IF ~REq(DenV(e.rcls, e.res), Expected(e, da, db)) THEN "result_denotes_another_function"
  ELSE IF e.res_bool # ~RIsZero(DenV(e.rcls, e.res)) THEN "truthiness_is_not_an_exact_zero_test"
  ELSE IF e.res_eq0 # RIsZero(DenV(e.rcls, e.res)) THEN "comparison_with_0_is_not_an_exact_zero_test"
  \* e.zdiff = result - (the same function as a canonically stored polynomial): the zero function
  ELSE IF ~RIsZero(Den(e.zdiff.rep)) THEN "MACHINERY_difference_with_canonical_form_is_not_zero"
  ELSE IF e.zdiff.bool \/ ~e.zdiff.eq0 THEN "zero_test_fails_on_difference_of_equal_functions"
  ELSE IF e.a_eq_b /\ ~e.bnum /\ ~REq(da, db) THEN "eq_equates_different_functions"
  ELSE IF e.a_after # e.a \/ (~e.bnum /\ e.b_after # e.b) THEN "operand_was_modified"
  ELSE IF e.hassym /\ ~REq(DenV(e.rcls, e.res), <<PFromSeq(e.sym.n), PFromSeq(e.sym.d)>>) THEN "tosympy_denotes_another_function"
  ELSE IF e.cls = "P" /\ e.rcls = "P" /\ ~e.bnum /\ e.bcls = "P" /\ e.op \in {"add", "mul", "neg"} /\
          e.res # (CASE e.op = "add" -> PolyAdd(e.a, e.b) [] e.op = "mul" -> PolyMul(e.a, e.b) [] e.op = "neg" -> PolyNeg(e.a))
       THEN "drift_stored_representation_differs_from_transcribed_algorithm"
  ELSE "ok"

Init == l = 1
Next == /\ l <= Len(Trace)
        /\ LET v == PolyVerdict(Trace[l]) IN IF v = "ok" THEN TRUE ELSE PrintT(<<"REJECT", Trace[l].id, v>>)
        /\ l' = l + 1
Spec == Init /\ [][Next]_l
=============================================================================
