----------------------------- MODULE IndexModel -----------------------------
(***************************************************************************)
(* Implementation-shaped model of MultiVector.__setitem__                   *)
(* (multivector.py:301-317), the part of C16 that has an algorithm of its   *)
(* own (operators on array-valued coefficients rely on numpy broadcasting   *)
(* and are judged lane by lane in TraceOps).                                  *)
(*                                                                         *)
(* An array-valued multivector stores, per key, an array of n entries (flat  *)
(* positions 1..n of the trailing shape); `container` says whether the        *)
(* coefficients are one ndarray (keys along the first axis) or a list of      *)
(* arrays.  An index expression addresses the positions  pos  (a sequence of  *)
(* distinct positions).  The assigned value is a sequence with one item per   *)
(* key, each item a number  <<"s", v>>  or an array over the addressed          *)
(* positions  <<"a", <<v1, .., vm>>>>;  frommv says that it came from a          *)
(* MultiVector (whose keys equal the target's: the code checks that first).      *)
(*                                                                         *)
(* Branches of the code:                                                        *)
(*   list container, or (repaired code) any value taken from a multivector:      *)
(*       for self_values, other_value in zip(values, rhs): self_values[idx] = .. *)
(*   ndarray container otherwise:  values[(slice(None), *idx)] = rhs  -- numpy   *)
(*       broadcasting of the (nkeys,) list against the (nkeys, m) target aligns   *)
(*       the LAST axes: defined iff nkeys = m or nkeys = 1, entry (k, j) = rhs[j]  *)
(* Rule = "perkey" (repaired) / "broadcast" (pinned code: the ndarray branch also *)
(* for values taken from a multivector).                                           *)
(* Contract (C16): assignment through a multivector touches exactly the           *)
(* addressed entries of every coefficient, coefficient k receiving item k.         *)
(***************************************************************************)
EXTENDS Integers, Sequences, FiniteSets
CONSTANT Rule

IsScalarItem(it) == it[1] = "s"
ItemAt(it, p) == IF IsScalarItem(it) THEN it[2] ELSE it[2][p]          \* value for the p-th addressed position

PerKey(vals, pos, rhs) ==
  [raised |-> "", vals |-> [k \in DOMAIN vals |-> [j \in DOMAIN vals[k] |->
       IF \E p \in DOMAIN pos : pos[p] = j THEN ItemAt(rhs[k], CHOOSE p \in DOMAIN pos : pos[p] = j) ELSE vals[k][j]]]]

\* numpy: target shape (nkeys, m); a list of nkeys numbers has shape (nkeys,), a list of nkeys arrays has shape (nkeys, m)
Broadcast(vals, pos, rhs) ==
  LET nk == Len(vals) m == Len(pos) IN
  IF \A k \in DOMAIN rhs : ~IsScalarItem(rhs[k]) THEN PerKey(vals, pos, rhs)       \* shapes agree: element-wise
  ELSE IF \E k \in DOMAIN rhs : ~IsScalarItem(rhs[k]) THEN [raised |-> "ValueError", vals |-> vals]     \* ragged
  ELSE IF nk # m /\ nk # 1 THEN [raised |-> "ValueError", vals |-> vals]
  ELSE [raised |-> "", vals |-> [k \in DOMAIN vals |-> [j \in DOMAIN vals[k] |->
          IF \E p \in DOMAIN pos : pos[p] = j
          THEN LET p == CHOOSE q \in DOMAIN pos : pos[q] = j IN rhs[IF nk = 1 THEN 1 ELSE p][2]
          ELSE vals[k][j]]]]

ImplSetItem(container, vals, pos, rhs, frommv) ==
  IF container = "list" \/ (frommv /\ Rule = "perkey") THEN PerKey(vals, pos, rhs)
  ELSE Broadcast(vals, pos, rhs)

MeetsContract(container, vals, pos, rhs) ==
  LET r == ImplSetItem(container, vals, pos, rhs, TRUE) IN
  /\ r.raised = ""
  /\ \A k \in DOMAIN vals : \A j \in DOMAIN vals[k] :
        r.vals[k][j] = IF \E p \in DOMAIN pos : pos[p] = j THEN ItemAt(rhs[k], CHOOSE p \in DOMAIN pos : pos[p] = j)
                       ELSE vals[k][j]
=============================================================================
