------------------------------- MODULE Kingdon -------------------------------
(***************************************************************************)
(* The generate - compile - cache - dispatch state machine of one Algebra  *)
(* object, shared by every operator, every registered function and every   *)
(* thread that uses the algebra.                                            *)
(*                                                                         *)
(* Code (pinned tree):                                                      *)
(*   OperatorDict.__getitem__ / UnaryOperatorDict.__getitem__ /             *)
(*   Registry.__getitem__              operator_dict.py:45-53,131-137,155-163*)
(*   OperatorDict.__call__/_call_binary, UnaryOperatorDict.__call__,        *)
(*   Registry.__call__                 operator_dict.py:67-122,139-151,165-195*)
(*   do_codegen / do_compile (function names)   codegen.py:575-635          *)
(*   TapeRecorder.binary_operator/unary_operator taperecorder.py:68-81      *)
(*                                                                         *)
(* One action per critical section of the code (each is one GIL-atomic     *)
(* dict operation or a thread-local computation between two of them):       *)
(*   Begin, Lookup, then on a miss GenStep (repeated) and either GenFail   *)
(*   or PubNames, PubCache; then Dispatch, Exec (repeated), Return.        *)
(* A function is identified by what it was generated FOR: <<op, pat>> with *)
(* pat the ORDERED key pattern.  A function applied positionally to        *)
(* operands stored in another order computes a wrong value, so             *)
(*   "the function that runs was generated for exactly this ordered        *)
(*    pattern"  (DispatchExact)                                             *)
(* is the state-machine form of "results depend only on the operands".     *)
(* The value-level form (result = fresh algebra = reference) is checked on *)
(* the real library by trace validation (TraceKingdon / TraceOps).          *)
(*                                                                         *)
(* Deviation named, not idealised: generated function names encode the key *)
(* SET of each operand (type_number), not the ordered tuple: NameKey.       *)
(***************************************************************************)
EXTENDS Integers, Sequences, FiniteSets, TLC, Functions, SequencesExt

CONSTANTS
  Threads,        \* thread identifiers
  Wrapper,        \* BOOLEAN: Algebra(wrapper=...) set (dispatch of operators goes through numspace)
  NameKey,        \* "set": names encode key sets (the code today); "ordered": the ordered tuple
  UserCalls,      \* the alphabet of top-level calls: records [op, pat, mode]
  Kind(_),        \* op |-> "operator" | "registered"
  Stem(_),        \* op |-> the stem of generated function names (codegen.__name__)
  Deps(_, _),     \* (op, pat) |-> sequence of <<op', pat'>>: operator calls made on symbolic
                  \*   operands while generating (composite operators), in order
  Callees(_, _),  \* (registered op, pat) |-> sequence of <<op', pat'>> the tape records; each is
                  \*   looked up/generated at compile time and resolved BY NAME at every call
  Fails(_, _)     \* (op, pat) |-> TRUE when generation raises (ZeroDivisionError)

VARIABLES
  cache,      \* op |-> set of ordered patterns with an entry  (entry = function generated for it)
  numspace,   \* name |-> function id <<op, pat>> currently published under that name
  stack,      \* thread |-> sequence of frames (innermost last)
  bad,        \* set of violation tags produced by Dispatch/Exec (empty = none so far)
  ev,         \* the last step taken: [type, t, op, pat, hit]  (observable event of the step)
  gens        \* history: <<op, pat>> |-> number of generations (kept out of the VIEW)

vars == <<cache, numspace, stack, bad, ev, gens>>
view == <<cache, numspace, stack, bad, ev>>

AllOps == {c.op : c \in UserCalls} \cup UNION {{d[1] : d \in Range(Deps(c.op, c.pat))} : c \in UserCalls}

KeySets(pat) == [i \in DOMAIN pat |-> Range(pat[i])]
NameOf(op, pat) == IF NameKey = "set" THEN <<Stem(op), KeySets(pat)>> ELSE <<Stem(op), pat>>
Fid(op, pat) == <<op, pat>>

Frame(op, pat, mode, role) ==
  [op |-> op, pat |-> pat, mode |-> mode, role |-> role, phase |-> "lookup", todo |-> <<>>, fn |-> <<>>]
\* role: "call" (a __call__: ends with dispatch and return) or "getitem" (TapeRecorder: only
\* looks the function up / generates it; no dispatch)

Top(t) == stack[t][Len(stack[t])]
SetTop(t, f) == [stack EXCEPT ![t] = [@ EXCEPT ![Len(@)] = f]]
Push(t, f) == [stack EXCEPT ![t] = Append(@, f)]
Pop(t) == [stack EXCEPT ![t] = SubSeq(@, 1, Len(@) - 1)]
Idle(t) == stack[t] = <<>>
Cached(op, pat) == op \in DOMAIN cache /\ pat \in cache[op]

Ev(type, t, op, pat, hit) == [type |-> type, t |-> t, op |-> op, pat |-> pat, hit |-> hit]

Init ==
  /\ cache = [o \in {} |-> {}]
  /\ numspace = [n \in {} |-> <<>>]
  /\ stack = [t \in Threads |-> <<>>]
  /\ bad = {}
  /\ ev = Ev("init", "none", "none", <<>>, FALSE)
  /\ gens = [x \in {} |-> 0]

(***************************************************************************)
(* A thread starts a top-level call.                                         *)
(***************************************************************************)
Begin(t, c) ==
  /\ Idle(t)
  /\ stack' = Push(t, Frame(c.op, c.pat, c.mode, "call"))
  /\ ev' = Ev("Begin", t, c.op, c.pat, FALSE)
  /\ UNCHANGED <<cache, numspace, bad, gens>>

(***************************************************************************)
(* `keys_in not in self.operator_dict`                                       *)
(***************************************************************************)
Lookup(t) ==
  /\ ~Idle(t) /\ Top(t).phase = "lookup"
  /\ LET f == Top(t)
         hit == Cached(f.op, f.pat) IN
     /\ stack' = SetTop(t, [f EXCEPT !.phase = IF hit THEN (IF f.role = "call" THEN "dispatch" ELSE "return")
                                                ELSE "gen",
                                     !.todo = IF hit THEN <<>>
                                              ELSE IF Kind(f.op) = "registered" THEN Callees(f.op, f.pat)
                                              ELSE Deps(f.op, f.pat)])
     /\ ev' = Ev("Lookup", t, f.op, f.pat, hit)
  /\ UNCHANGED <<cache, numspace, bad, gens>>

(***************************************************************************)
(* While generating: the next operator call on symbolic operands            *)
(* (composite operators), or the next TapeRecorder look-up (registered      *)
(* functions).  It is a nested frame on the same thread.                     *)
(***************************************************************************)
GenStep(t) ==
  /\ ~Idle(t) /\ Top(t).phase = "gen" /\ Top(t).todo # <<>>
  /\ LET f == Top(t)
         d == Head(f.todo)
         role == IF Kind(f.op) = "registered" THEN "getitem" ELSE "call" IN
     /\ stack' = [stack EXCEPT ![t] =
                     Append([@ EXCEPT ![Len(@)] = [f EXCEPT !.todo = Tail(f.todo)]],
                            Frame(d[1], d[2], "sym", role))]
     /\ ev' = Ev("GenStep", t, d[1], d[2], FALSE)
  /\ UNCHANGED <<cache, numspace, bad, gens>>

(***************************************************************************)
(* Generation raises: the exception unwinds the whole stack of the thread; *)
(* nothing of the failing call (and of the calls that were generating it)  *)
(* is published.  Completed sub-generations stay.                            *)
(***************************************************************************)
GenFail(t) ==
  /\ ~Idle(t) /\ Top(t).phase = "gen" /\ Top(t).todo = <<>> /\ Fails(Top(t).op, Top(t).pat)
  /\ stack' = [stack EXCEPT ![t] = <<>>]
  /\ ev' = Ev("GenFail", t, Top(t).op, Top(t).pat, FALSE)
  /\ UNCHANGED <<cache, numspace, bad, gens>>

(***************************************************************************)
(* numspace[func.__name__] = wrapper(func) or func                           *)
(***************************************************************************)
PubNames(t) ==
  /\ ~Idle(t) /\ Top(t).phase = "gen" /\ Top(t).todo = <<>> /\ ~Fails(Top(t).op, Top(t).pat)
  /\ LET f == Top(t)
         n == NameOf(f.op, f.pat) IN
     /\ numspace' = (n :> Fid(f.op, f.pat)) @@ numspace
     /\ stack' = SetTop(t, [f EXCEPT !.phase = "pubcache"])
     /\ ev' = Ev("PubNames", t, f.op, f.pat, n \in DOMAIN numspace /\ numspace[n] # Fid(f.op, f.pat))
     /\ gens' = (<<f.op, f.pat>> :> (IF <<f.op, f.pat>> \in DOMAIN gens THEN gens[<<f.op, f.pat>>] + 1 ELSE 1)) @@ gens
  /\ UNCHANGED <<cache, bad>>

(***************************************************************************)
(* operator_dict[keys_in] = (keys_out, func)                                 *)
(***************************************************************************)
PubCache(t) ==
  /\ ~Idle(t) /\ Top(t).phase = "pubcache"
  /\ LET f == Top(t) IN
     /\ cache' = (f.op :> ((IF f.op \in DOMAIN cache THEN cache[f.op] ELSE {}) \cup {f.pat})) @@ cache
     /\ stack' = SetTop(t, [f EXCEPT !.phase = IF f.role = "call" THEN "dispatch" ELSE "return"])
     /\ ev' = Ev("PubCache", t, f.op, f.pat, Cached(f.op, f.pat))    \* hit = the entry existed already
  /\ UNCHANGED <<numspace, bad, gens>>

(***************************************************************************)
(* Choice of the function that runs: the cache entry's function for        *)
(* symbolic operands or when no wrapper is set, else numspace[its name].    *)
(* For a registered function the body then resolves every callee by name.  *)
(***************************************************************************)
Dispatch(t) ==
  /\ ~Idle(t) /\ Top(t).phase = "dispatch"
  /\ LET f == Top(t)
         own == Fid(f.op, f.pat)
         byname == f.mode = "num" /\ Wrapper
         n == NameOf(f.op, f.pat)
         fn == IF byname THEN numspace[n] ELSE own IN
     /\ bad' = IF fn = own THEN bad ELSE bad \cup {<<"dispatch", own, fn>>}
     /\ stack' = SetTop(t, [f EXCEPT !.phase = IF Kind(fn[1]) = "registered" THEN "exec" ELSE "return",
                                     !.fn = fn,
                                     !.todo = IF Kind(fn[1]) = "registered" THEN Callees(fn[1], fn[2]) ELSE <<>>])
     /\ ev' = Ev("Dispatch", t, f.op, f.pat, byname)
  /\ UNCHANGED <<cache, numspace, gens>>

\* the compiled body of a registered function calls its callees by name, resolved in numspace
\* (its globals()) at call time
Exec(t) ==
  /\ ~Idle(t) /\ Top(t).phase = "exec"
  /\ LET f == Top(t) IN
     IF f.todo = <<>>
     THEN /\ stack' = SetTop(t, [f EXCEPT !.phase = "return"])
          /\ ev' = Ev("ExecDone", t, f.op, f.pat, FALSE)
          /\ bad' = bad
     ELSE LET d == Head(f.todo)
              n == NameOf(d[1], d[2])
              fn == numspace[n] IN
          /\ bad' = IF fn = Fid(d[1], d[2]) THEN bad ELSE bad \cup {<<"callee", Fid(d[1], d[2]), fn>>}
          /\ stack' = SetTop(t, [f EXCEPT !.todo = Tail(f.todo)])
          /\ ev' = Ev("Exec", t, d[1], d[2], FALSE)
  /\ UNCHANGED <<cache, numspace, gens>>

Return(t) ==
  /\ ~Idle(t) /\ Top(t).phase = "return"
  /\ stack' = Pop(t)
  /\ ev' = Ev("Return", t, Top(t).op, Top(t).pat, FALSE)
  /\ UNCHANGED <<cache, numspace, bad, gens>>

Step(t) == Lookup(t) \/ GenStep(t) \/ GenFail(t) \/ PubNames(t) \/ PubCache(t)
           \/ Dispatch(t) \/ Exec(t) \/ Return(t)
Next == \E t \in Threads : (\E c \in UserCalls : Begin(t, c)) \/ Step(t)
Spec == Init /\ [][Next]_vars
FairSpec == Spec /\ \A t \in Threads : WF_vars(Step(t))

(***************************************************************************)
(* Properties.                                                               *)
(***************************************************************************)
TypeOK ==
  /\ \A o \in DOMAIN cache : cache[o] # {}
  /\ \A t \in Threads : \A i \in DOMAIN stack[t] :
        stack[t][i].phase \in {"lookup", "gen", "pubcache", "dispatch", "exec", "return"}

\* C09, state-machine form: every function that ran was generated for exactly this ordered pattern
DispatchExact == bad = {}

\* a name never comes to denote a different function
NamesStable == [][\A n \in DOMAIN numspace : numspace'[n] = numspace[n]]_vars
\* distinct functions never share a name
NamesInjective == \A o \in DOMAIN cache : \A p \in cache[o] : NameOf(o, p) \in DOMAIN numspace => TRUE
NoNameClash == \A o1, o2 \in DOMAIN cache : \A p1 \in cache[o1], p2 \in cache[o2] :
                  NameOf(o1, p1) = NameOf(o2, p2) => <<o1, p1>> = <<o2, p2>>

\* cache entries are never removed
CacheMonotone == [][\A o \in DOMAIN cache : o \in DOMAIN cache' /\ cache[o] \subseteq cache'[o]]_vars

\* C10: with one thread, a pattern that has an entry is never generated again:
\* every look-up of a cached pattern is a hit, and nothing is published for a cached pattern
GenOnce == [][/\ (ev'.type = "Lookup" /\ Cached(ev'.op, ev'.pat)) => ev'.hit
              /\ (ev'.type = "PubNames") => ~Cached(ev'.op, ev'.pat)
              /\ (ev'.type = "PubCache") => ~ev'.hit]_vars

\* a failing call publishes nothing of its own: every cached function has its name published,
\* and a thread that is idle has no half-built frame
PublishedBeforeCached == \A o \in DOMAIN cache : \A p \in cache[o] : NameOf(o, p) \in DOMAIN numspace
FailAtomic == [][ev'.type = "GenFail" =>
                  /\ cache' = cache /\ numspace' = numspace
                  /\ stack'[ev'.t] = <<>>
                  /\ ~Cached(ev'.op, ev'.pat)]_vars

\* liveness: every call returns (or raises)
Returns == \A t \in Threads : (stack[t] # <<>>) ~> (stack[t] = <<>>)
=============================================================================
