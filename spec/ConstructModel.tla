--------------------------- MODULE ConstructModel ---------------------------
(***************************************************************************)
(* Implementation-shaped model of MultiVector.__new__ (multivector.py:21-94):*)
(* the input normalisation that turns the documented construction forms     *)
(* into (keys, values), transcribed branch by branch, and the CONTRACT it    *)
(* must meet (the contract is the one TraceConstruct validates the real      *)
(* library against).                                                          *)
(*                                                                         *)
(* An input is a record                                                       *)
(*   items  : sequence of <<spelling, value>> (keyword blades), or <<>>        *)
(*   hasvals, vals : the `values` argument (a sequence), ismap: it is a       *)
(*            mapping given as a sequence of <<key, value>> pairs               *)
(*   haskeys, keys : the `keys` argument; a key is a bitmask (integer keys) or *)
(*            <<"n", name>> for a blade name (canonical spelling)               *)
(*   hasgrades, grades : the `grades` argument (a sequence of integers)          *)
(*   graded : Algebra(graded=True)                                               *)
(* Values are integers.  Result: [raised |-> "" | exception, keys, vals].        *)
(* KwRule = "all": every non-canonical spelling is re-keyed (repaired code);    *)
(*          "odd": only odd permutations are (pinned code: even ones dropped).   *)
(***************************************************************************)
EXTENDS AlgebraModel
CONSTANT KwRule

Ok(keys, vals) == [raised |-> "", keys |-> keys, vals |-> vals]
Err(x) == [raised |-> x, keys |-> <<>>, vals |-> <<>>]
IsName(k) == k \in Seq(Nat) \/ k = <<>>        \* unused: keys are tagged explicitly
KeyBin(m, k) == IF k[1] = "b" THEN k[2] ELSE NameBin(m, k[2])          \* <<"b", bitmask>> or <<"n", name>>
GradeOf(m, B) == Popcount(m.d, B)
SortedGrades(S) == SetToSortSeq(S, <)

\* step 1 (lines 39-47): keyword blades
KwItems(m, items) ==
  LET canon(i) == LET sp == items[i][1]
                      isCanon == \E B \in Blades(m.d) : CanonName(m, B) = sp
                      bc == Blade2Canon(m, sp)
                  IN  IF isCanon THEN <<sp, items[i][2], TRUE>>
                      ELSE IF bc[1] = NoBlade THEN <<sp, items[i][2], FALSE>>                      \* unknown generator: stays under its own name
                      ELSE IF bc[2] % 2 = 1 THEN <<bc[1], 0 - items[i][2], TRUE>>
                      ELSE IF KwRule = "all" THEN <<bc[1], items[i][2], TRUE>>
                      ELSE <<sp, items[i][2], FALSE>>                                               \* pinned code: even permutation not re-keyed
      rek == [i \in DOMAIN items |-> canon(i)]
      \* (blade, items[blade]) for blade in canon2bin if blade in items: canonical order, later duplicates overwrite
      present == {B \in Blades(m.d) : \E i \in DOMAIN rek : rek[i][3] /\ rek[i][1] = CanonName(m, B)}
      ord == SelectSeq(m.order, LAMBDA B : B \in present)
      valOf(B) == rek[CHOOSE i \in DOMAIN rek : rek[i][3] /\ rek[i][1] = CanonName(m, B) /\ \A j \in DOMAIN rek : (rek[j][3] /\ rek[j][1] = CanonName(m, B)) => j <= i][2]
  IN  IF ord = <<>> THEN Err("ValueError")                \* zip(*()) cannot be unpacked
      ELSE Ok(ord, [i \in DOMAIN ord |-> valOf(ord[i])])

ImplNew(m, inp) ==
  LET kw == inp.items # <<>> /\ ~inp.haskeys /\ ~inp.hasvals
      r1 == IF kw THEN KwItems(m, inp.items) ELSE Ok(<<>>, <<>>)
  IN
  IF r1.raised # "" THEN r1 ELSE
  LET keys0 == IF kw THEN [i \in DOMAIN r1.keys |-> <<"b", r1.keys[i]>>] ELSE IF inp.haskeys THEN inp.keys ELSE <<>>
      haskeys0 == kw \/ inp.haskeys
      vals0 == IF kw THEN r1.vals ELSE IF inp.hasvals /\ ~inp.ismap THEN inp.vals ELSE <<>>
      keysb == [i \in DOMAIN keys0 |-> KeyBin(m, keys0[i])]                         \* line 50-51 / 83-85: names -> bitmasks
      \* lines 57-64: grades
      badgrades == inp.hasgrades /\ \E i \in DOMAIN inp.grades : inp.grades[i] < 0 \/ inp.grades[i] > m.d
      gset == IF inp.hasgrades THEN Range(inp.grades)
              ELSE IF keysb # <<>> THEN {GradeOf(m, keysb[i]) : i \in DOMAIN keysb}
              ELSE 0 .. m.d
      ifg == IndicesForGrades(m, gset)
  IN
  IF badgrades THEN Err("ValueError")
  ELSE IF inp.graded /\ keysb # <<>> /\ keysb # ifg THEN Err("ValueError")                \* line 66-68
  ELSE
  LET r7 == IF inp.ismap THEN                                                               \* line 71-73
               (IF inp.vals = <<>> THEN Ok(<<>>, <<>>)
                ELSE Ok([i \in DOMAIN inp.vals |-> KeyBin(m, inp.vals[i][1])], [i \in DOMAIN inp.vals |-> inp.vals[i][2]]))
            ELSE IF Len(vals0) = Len(ifg) /\ keysb = <<>> THEN Ok(ifg, vals0)             \* line 74-75
            ELSE IF Len(keysb) # Len(vals0) THEN Err("TypeError")                          \* line 80-81
            ELSE Ok(keysb, vals0)
  IN
  IF r7.raised # "" THEN r7
  ELSE IF ~(Range(r7.keys) \subseteq Range(ifg)) THEN Err("ValueError")                     \* line 91-92
  ELSE r7

(***************************************************************************)
(* The contract: what the user supplied, as <<spelling, value>> pairs.        *)
(***************************************************************************)
SpellParity(m, c, sp) == Orient(NameSpelling(m, sp)) * Ori(c, NameBin(m, sp))
Want(m, c, supplied) ==
  [B \in Blades(m.d) |-> FoldSet(LAMBDA i, acc : IF NameBin(m, supplied[i][1]) = B THEN acc + SpellParity(m, c, supplied[i][1]) * supplied[i][2] ELSE acc,
                                 0, DOMAIN supplied)]
DenOf(m, r) == [B \in Blades(m.d) |-> FoldSet(LAMBDA i, acc : IF r.keys[i] = B THEN acc + r.vals[i] ELSE acc, 0, DOMAIN r.keys)]

\* a valid input builds exactly what was supplied; an inconsistent one raises
MeetsContract(m, c, inp, supplied, valid) ==
  LET r == ImplNew(m, inp) IN
  IF valid THEN r.raised = "" /\ DenOf(m, r) = Want(m, c, supplied)
              /\ \A i, j \in DOMAIN r.keys : i # j => r.keys[i] # r.keys[j]
  ELSE r.raised # ""
=============================================================================
