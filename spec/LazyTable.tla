------------------------------ MODULE LazyTable ------------------------------
(***************************************************************************)
(* The lazily filled tables of algebras with d > 6 (algebra.py:288-289,       *)
(* 541-551: DefaultKeyDict; 576-589: BladeDict(lazy=True)).                     *)
(* State: which keys are already stored.  A reader obtains the sign of a pair  *)
(* through __getitem__ (fills a missing entry through the factory) -- or, in    *)
(* the control variant, through dict.get, which never calls __missing__.        *)
(* LazyTablesPure: whatever was looked up before, by whom and in which order,   *)
(* the value a reader obtains for a pair is the value of the factory -- a        *)
(* function of the pair alone; entries are never changed once stored.            *)
(***************************************************************************)
EXTENDS Integers, FiniteSets, TLC
CONSTANTS Keys,          \* the pairs that may be looked up
          Access,        \* "getitem" (the code) | "get" (control: must be refuted)
          Factory(_)     \* key |-> value computed by _compute_sign
VARIABLES table, got     \* table: stored entries; got: the last value a reader obtained, as <<key, value>>
None == -99
Init == table = [k \in {} |-> 0] /\ got = [has |-> FALSE, key |-> CHOOSE k \in Keys : TRUE, val |-> 0]
Read(k) == IF k \in DOMAIN table THEN /\ got' = [has |-> TRUE, key |-> k, val |-> table[k]] /\ UNCHANGED table
           ELSE IF Access = "getitem" THEN /\ table' = (k :> Factory(k)) @@ table /\ got' = [has |-> TRUE, key |-> k, val |-> Factory(k)]
           ELSE /\ got' = [has |-> TRUE, key |-> k, val |-> None] /\ UNCHANGED table
\* somebody else (another product, the cayley property, a user) looks an entry up properly
Fill(k) == k \notin DOMAIN table /\ table' = (k :> Factory(k)) @@ table /\ UNCHANGED got
Next == \E k \in Keys : Read(k) \/ Fill(k)
Spec == Init /\ [][Next]_<<table, got>>
LazyTablesPure == got.has => got.val = Factory(got.key)
EntriesStable == [][\A k \in DOMAIN table : k \in DOMAIN table' /\ table'[k] = table[k]]_<<table, got>>
TableCorrect == \A k \in DOMAIN table : table[k] = Factory(k)
=============================================================================
