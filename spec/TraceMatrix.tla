----------------------------- MODULE TraceMatrix -----------------------------
(***************************************************************************)
(* MatrixModel + trace validation for C18.  Matrices are sparse: a matrix  *)
(* is a sequence of triples <<row, column, value>> (0-based, value # 0).    *)
(* The properties are stated over GIVEN matrices, so TLC checks them on the *)
(* matrices the implementation actually produced:                           *)
(*   homomorphism  M(e_I) M(e_J) = sign(I,J) M(e_(I xor J))  for all blade  *)
(*                 pairs (complete by bilinearity), M(1) = identity         *)
(*   first column  the first column of M(x) holds the coefficients of x in  *)
(*                 canonical order (so frommatrix inverts asmatrix and the  *)
(*                 representation is injective)                              *)
(*   linearity     M(x) = sum x_I M(e_I)                                      *)
(*   expr_as_matrix  y = Sem(expression)(inputs) and A . coeffs(x) = coeffs(y)*)
(*                 as polynomial identities in the symbols                   *)
(***************************************************************************)
EXTENDS AlgebraModel, PolyRing, Json, IOUtils

MI == INSTANCE MultivectorRef WITH
        CZero <- 0, COne <- 1, CAdd <- LAMBDA a, b : a + b, CMul <- LAMBDA a, b : a * b,
        CNeg <- LAMBDA a : 0 - a, CEq <- LAMBDA a, b : a = b, CScale <- LAMBDA k, a : k * a
MR == INSTANCE MultivectorRef WITH
        CZero <- RZero, COne <- ROne, CAdd <- RAdd, CMul <- RMul, CNeg <- RNeg, CEq <- REq, CScale <- RScale

Trace == ndJsonDeserialize(IOEnv.TRACE_FILE)
VARIABLE l

\* sparse matrix (sequence of triples) as a function <<i,j>> -> value on its support
AsFun(t) == [p \in {<<t[k][1], t[k][2]>> : k \in DOMAIN t} |-> t[CHOOSE k \in DOMAIN t : <<t[k][1], t[k][2]>> = p][3]]
At(f, i, j) == IF <<i, j>> \in DOMAIN f THEN f[<<i, j>>] ELSE 0
\* product of two sparse integer matrices, as a function on the non-zero entries
MatMul(a, b) ==
  LET cand == {<<a[k][1], b[m][2]>> : k \in DOMAIN a, m \in DOMAIN b}
      val(p) == FoldSet(LAMBDA k, acc : acc + FoldSet(LAMBDA m, acc2 : IF a[k][2] = b[m][1] /\ a[k][1] = p[1] /\ b[m][2] = p[2]
                                                                    THEN acc2 + a[k][3] * b[m][3] ELSE acc2, 0, DOMAIN b),
                        0, DOMAIN a)
      f == [p \in cand |-> val(p)]
  IN  [p \in {x \in cand : f[x] # 0} |-> f[p]]
ScaleFun(s, f) == IF s = 0 THEN [p \in {} |-> 0] ELSE [p \in DOMAIN f |-> s * f[p]]
NoZeros(t) == \A k \in DOMAIN t : t[k][3] # 0

MatrixRepVerdict(e) ==
  LET m == UC(e.u)
      c == Compile(BitCfgM(m))
      d == m.d
      n == Pow2(d)
      M == [B \in Blades(d) |-> e.blades[CHOOSE k \in DOMAIN e.blades : e.blades[k][1] = B][2]]
      F == [B \in Blades(d) |-> AsFun(M[B])]
      posOf == [B \in Blades(d) |-> (CHOOSE i \in DOMAIN m.order : m.order[i] = B) - 1]
  IN
  IF e.raised # "" THEN "asmatrix_raised"
  ELSE IF {e.blades[k][1] : k \in DOMAIN e.blades} # Blades(d) THEN "MACHINERY_missing_blade_matrix"
  ELSE IF \E B \in Blades(d) : ~NoZeros(M[B]) THEN "MACHINERY_explicit_zero_in_sparse_matrix"
  ELSE IF F[0] # [p \in {<<i, i>> : i \in 0 .. n - 1} |-> 1] THEN "matrix_of_1_is_not_the_identity"
  ELSE IF \E B \in Blades(d) : \E i \in 0 .. n - 1 : At(F[B], i, 0) # (IF i = posOf[B] THEN 1 ELSE 0)
       THEN "first_column_is_not_the_coefficient_vector"
  ELSE IF \E I, J \in Blades(d) : MatMul(M[I], M[J]) # ScaleFun(Sgn(c, I, J), F[I ^^ J])
       THEN "matrices_of_basis_blades_do_not_multiply_like_the_blades"
  ELSE IF \E s \in DOMAIN e.samples :
            LET x == e.samples[s]
                fx == AsFun(x.triples)
                want(i, j) == FoldSet(LAMBDA k, acc : acc + x.coefs[k] * At(F[x.keys[k]], i, j), 0, DOMAIN x.keys)
            IN  \/ \E i, j \in 0 .. n - 1 : At(fx, i, j) # want(i, j)
                \/ x.back.keys # m.order
                \/ \E i \in DOMAIN m.order : x.back.coefs[i] # FoldSet(LAMBDA k, acc : IF x.keys[k] = m.order[i] THEN acc + x.coefs[k] ELSE acc, 0, DOMAIN x.keys)
       THEN "asmatrix_not_linear_or_frommatrix_does_not_invert_it"
  \* the clause as stated, on the library's own matrices: x.asmatrix() @ y.asmatrix() (numpy) = (x*y).asmatrix(), and both are
  \* the linear combination of the blade matrices with the coefficients of the REFERENCE product (larger integer coefficients:
  \* the entries must not wrap or overflow)
  ELSE IF \E s \in DOMAIN e.pairs :
            LET pr == e.pairs[s]
                want == MI!GP(c, MI!FromKV(d, pr.x.keys, pr.x.coefs), MI!FromKV(d, pr.y.keys, pr.y.coefs))
                wantAt(i, j) == FoldSet(LAMBDA B, acc : acc + want[B] * At(F[B], i, j), 0, Blades(d))
            IN  pr.raised # "" \/ \E i, j \in 0 .. n - 1 : At(AsFun(pr.matmul), i, j) # wantAt(i, j) \/ At(AsFun(pr.ofprod), i, j) # wantAt(i, j)
       THEN "product_of_the_matrices_is_not_the_matrix_of_the_product"
  ELSE "ok"

\* JSON program tree -> record tree
RECURSIVE DecodeTree(_, _)
DecodeTree(ring, j) ==
  IF j.n = "arg" THEN [n |-> "arg", i |-> j.i]
  ELSE IF j.n = "num" THEN [n |-> "num", v |-> RFromPoly(PFromSeq(j.v))]
  ELSE [n |-> j.n, c |-> [i \in DOMAIN j.c |-> DecodeTree(ring, j.c[i])], p |-> j.p]
DecodeMV(c, mv) == MR!FromKV(c.d, mv.keys, [i \in DOMAIN mv.coefs |-> RFromPoly(PFromSeq(mv.coefs[i]))])

ExprMatVerdict(e) ==
  LET m == UC(e.u)
      c == Compile(BitCfgM(m))
      args == [i \in DOMAIN e.args |-> DecodeMV(c, e.args[i])]
      y == DecodeMV(c, e.y)
      xs == [j \in DOMAIN e.x.coefs |-> PFromSeq(e.x.coefs[j])]
      row(i) == FoldSet(LAMBDA j, acc : PAdd(PMul(PFromSeq(e.A[i][j]), xs[j]), acc), PZero, DOMAIN xs)
      full == MR!EvalTree(c, DecodeTree("poly", e.tree), args)
  IN
  IF e.raised # "" THEN "expr_as_matrix_raised"
  ELSE IF Len(e.A) # Len(e.y.keys) \/ \E i \in DOMAIN e.A : Len(e.A[i]) # Len(e.x.keys) THEN "matrix_shape_differs_from_len_y_by_len_x"
  ELSE IF ~MR!StoredOK(c, e.y.keys, e.y.coefs) THEN "y_not_well_formed"
  \* y = f(.., x) on the blades it stores; with res_like exactly those blades, otherwise every blade
  ELSE IF \E i \in DOMAIN e.y.keys : ~REq(y[e.y.keys[i]], full[e.y.keys[i]]) THEN "y_differs_from_expression_value"
  ELSE IF ~e.reslike /\ \E B \in DOMAIN full : B \notin Range(e.y.keys) /\ ~RIsZero(full[B]) THEN "y_misses_a_non_zero_blade"
  ELSE IF e.reslike /\ Range(e.y.keys) # Range(e.likekeys) THEN "res_like_keys_not_respected"
  ELSE IF \E i \in DOMAIN e.y.keys : row(i) # PFromSeq(e.y.coefs[i]) THEN "A_times_coefficients_of_x_differs_from_coefficients_of_y"
  ELSE "ok"

Verdict(e) == CASE e.kind = "matrixrep" -> MatrixRepVerdict(e)
                [] e.kind = "exprmat" -> ExprMatVerdict(e)
                [] OTHER -> "unknown_event_kind"
Init == l = 1
Next == /\ l <= Len(Trace)
        /\ LET v == Verdict(Trace[l]) IN IF v = "ok" THEN TRUE ELSE PrintT(<<"REJECT", Trace[l].id, v>>)
        /\ l' = l + 1
Spec == Init /\ [][Next]_l
=============================================================================
