------------------------------ MODULE TraceOps ------------------------------
(***************************************************************************)
(* Trace validation of recorded operator applications (code -> spec).      *)
(*                                                                         *)
(* The trace is an ndjson file (IOEnv.TRACE_FILE).  Line 1 is the header   *)
(*   {kind:"cfg", u: <user-level configuration>}                            *)
(* every other line one event of the real library:                          *)
(*   {id, kind:"op", op, ring, args:[{keys,coefs}...], params:[...],        *)
(*    raised, res:{keys,coefs}}                                              *)
(* Coefficients are polynomials over Z in formal indeterminates            *)
(* (ring "poly": [[c,[vars]]...]) or quotients of two (ring "rat":          *)
(* {n:..,d:..}); an event therefore decides its key pattern for ALL values. *)
(* Every event is judged by OpVerdict of the reference semantics; Next     *)
(* always advances, rejections are printed, so one rejection never hides   *)
(* the rest of the trace.                                                    *)
(***************************************************************************)
EXTENDS AlgebraModel, PolyRing, Json, IOUtils

MR == INSTANCE MultivectorRef WITH
        CZero <- RZero, COne <- ROne, CAdd <- RAdd, CMul <- RMul, CNeg <- RNeg,
        CEq <- REq, CScale <- RScale

Trace == ndJsonDeserialize(IOEnv.TRACE_FILE)
U == Trace[1].u
UM == UC(U)
CC == Compile(BitCfgM(UM))
Graded == Trace[1].opts.graded

VARIABLE l

DecodeCoef(ring, j) == IF ring = "poly" THEN RFromPoly(PFromSeq(j)) ELSE RFromJson(j)
DecodeCoefs(ring, js) == [i \in DOMAIN js |-> DecodeCoef(ring, js[i])]
DecodeMV(c, ring, mv) == MR!FromKV(c.d, mv.keys, DecodeCoefs(ring, mv.coefs))

\* graded mode (C13): every result stores complete grades, in canonical order
CompleteGrades(keys) == keys = IndicesForGrades(UM, {CC.pop[keys[i]] : i \in DOMAIN keys})

OpEventVerdict(c, e) ==
  IF \E i \in DOMAIN e.args : ~MR!StoredOK(c, e.args[i].keys, e.args[i].coefs)
  THEN "operand_not_well_formed"
  ELSE IF e.kind # "opc" /\ Graded /\ e.raised = "" /\ ~CompleteGrades(e.res.keys)
  THEN "graded_mode_result_does_not_store_complete_grades"
  ELSE MR!OpVerdict(c, e.op, [i \in DOMAIN e.args |-> DecodeMV(c, e.ring, e.args[i])],
                    e.params, e.raised, e.res.keys, DecodeCoefs(e.ring, e.res.coefs),
                    DecodeMV(c, e.ring, e.witness))

\* JSON program tree -> record tree with decoded constants
RECURSIVE DecodeTree(_, _)
DecodeTree(ring, j) ==
  IF j.n = "arg" THEN [n |-> "arg", i |-> j.i]
  ELSE IF j.n = "num" THEN [n |-> "num", v |-> DecodeCoef(ring, j.v)]
  ELSE [n |-> j.n, c |-> [i \in DOMAIN j.c |-> DecodeTree(ring, j.c[i])], p |-> j.p]

SameStored(a, b) == a.keys = b.keys /\ a.coefs = b.coefs

(***************************************************************************)
(* A call made in the middle of a history on a long-lived algebra (C09,    *)
(* C10, C11, C13): besides the value clause of the operator,                *)
(*   fresh      the same call on a freshly created algebra gave the same   *)
(*              element (or the same exception)                              *)
(*   frame      no operand and no previously returned multivector changed   *)
(*   program    for a registered function: value = Sem(program)(args) and   *)
(*              = the plain python function (direct)                         *)
(***************************************************************************)
CallEventVerdict(c, e) ==
  LET args == [i \in DOMAIN e.args |-> DecodeMV(c, e.ring, e.args[i])]
      res == DecodeMV(c, e.ring, e.res)
      v1 == IF e.op = "prog" THEN
               (IF e.raised # "" THEN (IF e.mayraise THEN "ok" ELSE "registered_function_raised")
                ELSE IF ~MR!StoredOK(c, e.res.keys, e.res.coefs) THEN "result_not_well_formed"
                ELSE IF e.hasdirect /\ ~MR!SameElement(res, DecodeMV(c, e.ring, e.direct)) THEN "registered_differs_from_plain_function"
                ELSE IF e.hastree /\ ~MR!SameElement(res, MR!EvalTree(c, DecodeTree(e.ring, e.tree), args)) THEN "registered_differs_from_semantics_of_program"
                ELSE "ok")
            ELSE OpEventVerdict(c, e)
  IN
  IF v1 # "ok" THEN v1
  ELSE IF e.hasfresh /\ e.fresh.raised # e.raised THEN "exception_differs_from_fresh_algebra"
  ELSE IF e.hasfresh /\ e.raised = "" /\ ~MR!SameElement(res, DecodeMV(c, e.ring, e.fresh.res)) THEN "value_differs_from_fresh_algebra"
  \* the same call with the same operands is the same computation: also the STORED blades agree (a result that keeps
  \* blades a fresh algebra drops -- or the reverse -- depends on the history)
  ELSE IF e.hasfresh /\ e.raised = "" /\ e.res.keys # e.fresh.res.keys THEN "stored_blades_differ_from_fresh_algebra"
  ELSE IF \E i \in DOMAIN e.before : ~SameStored(e.before[i], e.after[i]) THEN "operand_or_earlier_result_was_modified"
  ELSE "ok"

(***************************************************************************)
(* C12: symbolic evaluation commutes with numeric evaluation.                *)
(*   e.args / e.res : symbolic operands and the symbolic result, as          *)
(*                    polynomials / rational functions in the symbols        *)
(*   e.sigma        : the assignment  <<var id, <<n, d>>>>...                 *)
(*   e.evals        : numeric multivectors obtained by calling the result    *)
(*                    positionally / by keyword, by sympy substitution, and  *)
(*                    by applying the operator to the numeric operands        *)
(* Clauses: the symbolic result is the reference value for ALL values        *)
(* (OpVerdict over the rational functions; a dropped blade must be           *)
(* identically zero), and every numeric multivector equals the symbolic      *)
(* result evaluated at sigma, blade by blade (absent = 0).                    *)
(***************************************************************************)
SubstVerdict(c, e) ==
  LET v1 == OpEventVerdict(c, e)
      env == [i \in {e.sigma[k][1] : k \in DOMAIN e.sigma} |->
                LET k == CHOOSE k \in DOMAIN e.sigma : e.sigma[k][1] = i IN <<e.sigma[k][2][1], e.sigma[k][2][2]>>]
      rs == DecodeMV(c, e.ring, e.res)
      pole == \E B \in DOMAIN rs : REvalQ(rs[B], env)[2] = 0
      bad(ev) == LET R == DecodeMV(c, "rat", ev.res) IN
                 \E B \in DOMAIN rs : ~RIsConst(R[B]) \/ ~QEq(RToQ(R[B]), REvalQ(rs[B], env))
  IN
  IF v1 # "ok" THEN v1
  ELSE IF e.raised # "" \/ pole THEN "ok"
  ELSE IF \E i \in DOMAIN e.evals : e.evals[i].raised # "" THEN "numeric_evaluation_raised"
  ELSE IF \E i \in DOMAIN e.evals : e.evals[i].how = "call_positional" /\ bad(e.evals[i]) THEN "positional_call_differs_from_substitution"
  ELSE IF \E i \in DOMAIN e.evals : e.evals[i].how = "call_keyword" /\ bad(e.evals[i]) THEN "keyword_call_differs_from_substitution"
  ELSE IF \E i \in DOMAIN e.evals : e.evals[i].how = "subs" /\ bad(e.evals[i]) THEN "sympy_subs_differs_from_substitution"
  ELSE IF \E i \in DOMAIN e.evals : e.evals[i].how = "numeric_operator" /\ bad(e.evals[i]) THEN "numeric_operator_differs_from_symbolic_result_at_sigma"
  ELSE "ok"

(***************************************************************************)
(* C14: relabelling.  e.u = custom configuration, operands/result recorded  *)
(* there (args, res) and in the default-basis algebra of the same signature *)
(* (args0, res0).  Phi(x)[PhiBlade(B)] = PhiSign(B) * x[B].                   *)
(***************************************************************************)
PhiMV(m, m0, x) ==
  [K \in DOMAIN x |-> LET B == CHOOSE B \in DOMAIN x : PhiBlade(m, m0, B) = K
                      IN  MR!CSigned(PhiSign(m, m0, B), x[B])]
RelabelVerdict(e) ==
  LET m == UC(e.u)
      m0 == UC(DefaultOf(e.u))
      c == Compile(BitCfgM(m))
      c0 == Compile(BitCfgM(m0))
      args == [i \in DOMAIN e.args |-> DecodeMV(c, e.ring, e.args[i])]
      args0 == [i \in DOMAIN e.args0 |-> DecodeMV(c0, e.ring, e.args0[i])]
  IN
  IF \E i \in DOMAIN args : ~MR!SameElement(PhiMV(m, m0, args[i]), args0[i]) THEN "MACHINERY_operands_are_not_relabellings"
  ELSE IF e.raised # e.raised0 THEN "custom_and_default_basis_disagree_on_raising"
  ELSE IF e.raised # "" THEN "ok"
  ELSE IF ~MR!StoredOK(c, e.res.keys, e.res.coefs) \/ ~MR!StoredOK(c0, e.res0.keys, e.res0.coefs) THEN "result_not_well_formed"
  \* Duality is relative to the algebra's OWN pseudoscalar (C05).  Phi maps the custom pseudoscalar
  \* to s * (default pseudoscalar), s = its orientation, so operators that are linear in the
  \* pseudoscalar (or its inverse) commute with Phi up to that factor s -- which is what
  \* "isomorphic under Phi" means for them; all other operators commute exactly.
  ELSE LET sdual == IF e.op \in {"hodge", "unhodge", "polarity", "unpolarity", "dual", "undual", "rp"}
                    THEN PhiSign(m, m0, Pss(m.d)) ELSE 1
       IN  IF MR!SameElement(PhiMV(m, m0, DecodeMV(c, e.ring, e.res)), MR!Scale(sdual, DecodeMV(c0, e.ring, e.res0))) THEN "ok"
           ELSE "operator_does_not_commute_with_relabelling"

\* operands of two algebras: must be rejected unless the algebras are the same for the user
MixVerdict(e) ==
  IF SameAlgebraModel(e.ua, e.ub) THEN (IF e.raised = "" THEN "ok" ELSE "identical_algebras_rejected")
  ELSE IF SameUpToStartIndex(e.ua, e.ub) THEN "ok"
  ELSE IF e.raised # "" THEN "ok" ELSE "operands_of_different_algebras_silently_combined"

(***************************************************************************)
(* BroadcastModel (C16): array-valued coefficients are functions            *)
(* lane -> integer; every operator acts lane by lane.  The driver logs, for *)
(* every lane of the result, which lane of each operand numpy's            *)
(* broadcasting pairs with it (obtained by broadcasting arrays of position *)
(* labels, so numpy's rules are not re-implemented here).                    *)
(*   a.flat[c][lane + 1] = value of coefficient c of operand a in that lane *)
(***************************************************************************)
IntC(k) == RConst(k)
LaneMV(c, a, lane) == MR!FromKV(c.d, a.keys, [i \in DOMAIN a.keys |-> IntC(a.flat[i][lane + 1])])
BcastVerdict(c, e) ==
  IF e.raised # "" THEN "array_operands_raised"
  ELSE IF \E k \in DOMAIN e.res.flat : Len(e.res.flat[k]) # Len(e.lanes) THEN "result_shape_differs_from_broadcast_shape"
  ELSE IF \E ln \in DOMAIN e.lanes :
            MR!OpVerdict(c, e.op, [i \in DOMAIN e.args |-> LaneMV(c, e.args[i], e.lanes[ln][i])], e.params, "",
                         e.res.keys, [k \in DOMAIN e.res.keys |-> IntC(e.res.flat[k][ln])], MR!MVZero(c.d)) # "ok"
       THEN "lane_of_result_differs_from_operator_on_lanes_of_operands"
  ELSE "ok"

\* x[idx]: every coefficient array is indexed alike; e.pos = addressed positions (flat, 0-based)
GetItemVerdict(e) ==
  IF e.raised # "" THEN "getitem_raised"
  ELSE IF e.res.keys # e.before.keys THEN "getitem_changed_the_keys"
  ELSE IF \E k \in DOMAIN e.before.flat : e.res.flat[k] # [p \in DOMAIN e.pos |-> e.before.flat[k][e.pos[p] + 1]]
       THEN "getitem_returned_other_entries_than_addressed"
  ELSE IF e.after # e.before THEN "getitem_modified_its_operand"
  ELSE "ok"

\* x.itermv() / x.shape: the multivectors inside an array-valued multivector, one per position of the trailing shape in C
\* order, each with the operand's keys and the coefficients at that position; shape = <<number of keys>> \o trailing shape
IterMvVerdict(e) ==
  LET n == IF e.before.flat = <<>> THEN 0 ELSE Len(e.before.flat[1]) IN
  IF e.raised # "" THEN "itermv_raised"
  ELSE IF e.shape # <<Len(e.before.keys)>> \o e.before.shape THEN "shape_is_not_number_of_keys_then_trailing_shape"
  ELSE IF Len(e.items) # n THEN "itermv_yields_another_number_of_multivectors"
  ELSE IF \E i \in DOMAIN e.items : e.items[i].keys # e.before.keys \/
             e.items[i].vals # [k \in DOMAIN e.before.keys |-> e.before.flat[k][i]]
       THEN "itermv_item_differs_from_operand_at_that_position"
  ELSE IF e.after # e.before THEN "itermv_modified_its_operand"
  ELSE "ok"

\* x[idx] = v: exactly the addressed entries of every coefficient change, to the assigned values
\* mode "mv_perm": the assigned multivector stores the SAME blades in another order; the assignment is by blade
\* (e.assigned is listed per blade of the target).  The library may refuse it (any exception) -- then nothing may
\* have been written -- but if it accepts it the values must land on their own blades.
SetItemVerdict(e) ==
  IF e.raised # "" THEN (IF e.mode = "mv_perm" THEN (IF e.after = e.before THEN "ok" ELSE "refused_setitem_wrote_something") ELSE "setitem_raised")
  ELSE IF e.after.keys # e.before.keys THEN "setitem_changed_the_keys"
  ELSE IF \E k \in DOMAIN e.before.flat : \E j \in DOMAIN e.before.flat[k] :
            LET hits == {p \in DOMAIN e.pos : e.pos[p] + 1 = j} IN
            IF hits = {} THEN e.after.flat[k][j] # e.before.flat[k][j]
            ELSE e.after.flat[k][j] # e.assigned[k][CHOOSE p \in hits : \A p2 \in hits : p2 <= p]
       THEN "setitem_touched_other_entries_or_stored_other_values"
  ELSE IF e.otherafter # e.otherbefore THEN "setitem_modified_an_unrelated_multivector"
  ELSE "ok"

(***************************************************************************)
(* C19 certificates for the irrational functions.  The specification does   *)
(* not compute square roots or exponentials; it VERIFIES recorded results:  *)
(*  sqrt / x**0.5 : r * r = x  exactly, r = the float result logged as the   *)
(*                  nearest small-denominator fraction (distance in e.dist) *)
(*  norm          : r * r = normsq(x);   normalized : normsq(r) = 1,         *)
(*                  r * norm = x                                              *)
(*  exp           : x = X / g with integer X on a grid; TLC evaluates        *)
(*                  N! g^N sum_{k<=N} x^k / k!  =  sum (N!/k!) g^(N-k) X^k   *)
(*                  in integer arithmetic and compares with the logged value *)
(*                  scaled by S = N! g^N, within the remainder bound e.tol   *)
(***************************************************************************)
MIx == INSTANCE MultivectorRef WITH
        CZero <- 0, COne <- 1, CAdd <- LAMBDA a, b : a + b, CMul <- LAMBDA a, b : a * b,
        CNeg <- LAMBDA a : 0 - a, CEq <- LAMBDA a, b : a = b, CScale <- LAMBDA k, a : k * a
\* Gaussian integers <<re, im>>: complex coefficients (C19) through the ring-parameterised reference
MGx == INSTANCE MultivectorRef WITH
        CZero <- <<0, 0>>, COne <- <<1, 0>>, CAdd <- LAMBDA a, b : <<a[1] + b[1], a[2] + b[2]>>,
        CMul <- LAMBDA a, b : <<a[1] * b[1] - a[2] * b[2], a[1] * b[2] + a[2] * b[1]>>,
        CNeg <- LAMBDA a : <<0 - a[1], 0 - a[2]>>, CEq <- LAMBDA a, b : a = b, CScale <- LAMBDA k, a : <<k * a[1], k * a[2]>>
RECURSIVE IPow(_, _)
IPow(b, n) == IF n = 0 THEN 1 ELSE b * IPow(b, n - 1)
AbsInt(n) == IF n < 0 THEN 0 - n ELSE n
CertVerdict(c, e) ==
  IF e.raised # "" THEN "raised_in_the_stated_domain"
  ELSE IF e.cert \in {"sqrt", "powhalf"} THEN
       LET r == DecodeMV(c, "rat", e.r) x == DecodeMV(c, "rat", e.x) IN
       IF MR!SameElement(MR!GP(c, r, r), x) THEN "ok" ELSE "square_of_the_square_root_differs_from_the_operand"
  ELSE IF e.cert = "norm" THEN
       LET r == DecodeMV(c, "rat", e.r) x == DecodeMV(c, "rat", e.x) IN
       IF MR!SameElement(MR!GP(c, r, r), MR!NormSq(c, x)) THEN "ok" ELSE "norm_squared_differs_from_normsq"
  ELSE IF e.cert = "normalized" THEN
       LET r == DecodeMV(c, "rat", e.r) x == DecodeMV(c, "rat", e.x) IN
       IF ~MR!SameElement(MR!NormSq(c, r), MR!MVOne(c.d)) THEN "normalized_element_does_not_have_squared_norm_1"
       ELSE IF \E a, b \in MR!Supp(x) : ~REq(RMul(r[a], x[b]), RMul(r[b], x[a])) THEN "normalized_element_is_not_a_multiple_of_the_operand"
       ELSE "ok"
  ELSE IF e.cert = "exp" THEN
       LET X == MIx!FromKV(c.d, e.X.keys, e.X.coefs)
           sq == MIx!GP(c, X, X)
           series == FoldSet(LAMBDA k, acc : MIx!Add(MIx!Scale((MIx!Fact(e.N) \div MIx!Fact(k)) * IPow(e.g, e.N - k), MIx!GPow(c, X, k)), acc),
                             MIx!MVZero(c.d), 0 .. e.N)
           F == MIx!FromKV(c.d, e.F.keys, e.F.coefs)
       IN  IF \E B \in DOMAIN sq : B # 0 /\ sq[B] # 0 THEN "MACHINERY_operand_is_not_simple"
           ELSE IF \E B \in DOMAIN F : AbsInt(F[B] - series[B]) > e.tol THEN "exp_differs_from_the_power_series"
           ELSE "ok"
  ELSE IF e.cert = "expc" THEN
       \* complex coefficients: X and F hold <<re, im>> pairs; the series is evaluated over the Gaussian integers
       LET X == MGx!FromKV(c.d, e.X.keys, e.X.coefs)
           sq == MGx!GP(c, X, X)
           series == FoldSet(LAMBDA k, acc : MGx!Add(MGx!Scale((MGx!Fact(e.N) \div MGx!Fact(k)) * IPow(e.g, e.N - k), MGx!GPow(c, X, k)), acc),
                             MGx!MVZero(c.d), 0 .. e.N)
           F == MGx!FromKV(c.d, e.F.keys, e.F.coefs)
       IN  IF \E B \in DOMAIN sq : B # 0 /\ sq[B] # <<0, 0>> THEN "MACHINERY_operand_is_not_simple"
           ELSE IF \E B \in DOMAIN F : AbsInt(F[B][1] - series[B][1]) > e.tol \/ AbsInt(F[B][2] - series[B][2]) > e.tol
                THEN "exp_differs_from_the_power_series"
           ELSE "ok"
  ELSE "unknown_certificate"

(***************************************************************************)
(* C04 laws on RECORDED results only (no reference operator involved in     *)
(* the recorded values): with r = reverse, i = grade involution, c = Clifford*)
(* conjugation as the library computed them,                                  *)
(*   r(r x) = x, i(i x) = x, c(c x) = x;  r(xy) = r(y) r(x),  c(xy) = c(y) c(x),*)
(*   i(xy) = i(x) i(y);  c = r after i.                                          *)
(* The products on the right are taken with the reference GP of the recorded  *)
(* involuted operands, the left sides are the library's involutions of the     *)
(* library's product.                                                            *)
(***************************************************************************)
LawVerdict(c, e) ==
  LET D(mv) == DecodeMV(c, e.ring, mv)
      x == D(e.x) y == D(e.y) IN
  IF e.raised # "" THEN "raised_on_total_operator"
  ELSE IF ~MR!SameElement(D(e.rrx), x) \/ ~MR!SameElement(D(e.iix), x) \/ ~MR!SameElement(D(e.ccx), x) THEN "involution_applied_twice_is_not_the_identity"
  ELSE IF ~MR!SameElement(D(e.rxy), MR!GP(c, D(e.ry), D(e.rx))) THEN "reverse_is_not_an_antiautomorphism"
  ELSE IF ~MR!SameElement(D(e.cxy), MR!GP(c, D(e.cy), D(e.cx))) THEN "conjugate_is_not_an_antiautomorphism"
  ELSE IF ~MR!SameElement(D(e.ixy), MR!GP(c, D(e.ix), D(e.iy))) THEN "involute_is_not_an_automorphism"
  ELSE IF ~MR!SameElement(D(e.cx), D(e.rix)) THEN "conjugate_is_not_reverse_of_involute"
  ELSE IF ~MR!SameElement(D(e.xy), MR!GP(c, x, y)) THEN "value_differs_from_definition"
  ELSE "ok"

(***************************************************************************)
(* C03 consequences on RECORDED results only: with the library's own        *)
(* xy = x*y and yx = y*x,  ip + sp = lc + rc,  cp + acp = xy,                *)
(* 2 cp = xy - yx,  2 acp = xy + yx;  and for HOMOGENEOUS operands (grades   *)
(* r, s) op / ip / lc / rc / sp are the grade r+s / |r-s| / s-r / r-s / 0     *)
(* parts of the library's own xy.                                              *)
(***************************************************************************)
Law3Verdict(c, e) ==
  LET D(mv) == DecodeMV(c, e.ring, mv)
      x == D(e.x) y == D(e.y) xy == D(e.xy) yx == D(e.yx)
      gx == {c.pop[B] : B \in MR!Supp(x)} gy == {c.pop[B] : B \in MR!Supp(y)}
      hom == Cardinality(gx) = 1 /\ Cardinality(gy) = 1
      r == CHOOSE g \in gx : TRUE   s == CHOOSE g \in gy : TRUE
      Part(g) == IF g < 0 \/ g > c.d THEN MR!MVZero(c.d) ELSE MR!GradePart(c, xy, {g})
  IN
  IF e.raised # "" THEN "raised_on_total_operator"
  ELSE IF ~MR!SameElement(MR!Add(D(e.ip), D(e.sp)), MR!Add(D(e.lc), D(e.rc))) THEN "ip_plus_sp_differs_from_lc_plus_rc"
  ELSE IF ~MR!SameElement(MR!Add(D(e.cp), D(e.acp)), xy) THEN "cp_plus_acp_differs_from_gp"
  ELSE IF ~MR!SameElement(MR!Add(D(e.cp), D(e.cp)), MR!Sub(xy, yx)) THEN "twice_cp_differs_from_commutator_of_gp"
  ELSE IF ~MR!SameElement(MR!Add(D(e.acp), D(e.acp)), MR!Add(xy, yx)) THEN "twice_acp_differs_from_anticommutator_of_gp"
  ELSE IF hom /\ ~MR!SameElement(D(e.wedge), Part(r + s)) THEN "op_is_not_the_grade_r_plus_s_part_of_gp"
  ELSE IF hom /\ ~MR!SameElement(D(e.ip), Part(IF r > s THEN r - s ELSE s - r)) THEN "ip_is_not_the_grade_abs_r_minus_s_part_of_gp"
  ELSE IF hom /\ ~MR!SameElement(D(e.lc), Part(s - r)) THEN "lc_is_not_the_grade_s_minus_r_part_of_gp"
  ELSE IF hom /\ ~MR!SameElement(D(e.rc), Part(r - s)) THEN "rc_is_not_the_grade_r_minus_s_part_of_gp"
  ELSE IF hom /\ ~MR!SameElement(D(e.sp), Part(0)) THEN "sp_is_not_the_scalar_part_of_gp"
  ELSE IF ~MR!SameElement(xy, MR!GP(c, x, y)) THEN "value_differs_from_definition"
  ELSE "ok"

\* A recorded multivector is well formed when it has as many coefficients as keys.  Checked before any clause decodes
\* it, so that a malformed result of the library is a rejection (never an evaluation error of the specification).
OkMV(m) == Len(m.keys) = Len(m.coefs)
EventWF(e) ==
  LET F == DOMAIN e IN
  /\ (("res" \in F /\ "coefs" \in DOMAIN e.res) => OkMV(e.res))
  /\ (("res" \in F /\ "flat" \in DOMAIN e.res) => Len(e.res.keys) = Len(e.res.flat))
  /\ ("direct" \in F => OkMV(e.direct))
  /\ ("fresh" \in F => OkMV(e.fresh.res))
  /\ ("res0" \in F => OkMV(e.res0))
  /\ ("evals" \in F => \A i \in DOMAIN e.evals : OkMV(e.evals[i].res))
  /\ ("r" \in F /\ e.kind = "cert" => OkMV(e.r))
  /\ (e.kind \in {"law", "law3", "lawrp"} => \A f \in F \ {"id", "kind", "op", "raised", "params", "ring", "args"} : OkMV(e[f]))

\* C04 on kingdon's own symbol class (RationalPolynomial coefficients): sums, differences, negation and reversal of the
\* operands as first recorded, the sum computed twice, and the operands read again afterwards
LawRpVerdict(c, e) ==
  LET D(mv) == DecodeMV(c, e.ring, mv)
      x == D(e.x) y == D(e.y) IN
  IF e.raised # "" THEN "raised_on_total_operator"
  ELSE IF ~MR!SameElement(D(e.sum), MR!Add(x, y)) THEN "value_differs_from_definition"
  ELSE IF ~MR!SameElement(D(e.diff), MR!Sub(x, y)) THEN "value_differs_from_definition"
  ELSE IF ~MR!SameElement(D(e.neg), MR!Neg(x)) \/ ~MR!SameElement(D(e.rev), MR!MVReverse(c, x)) THEN "value_differs_from_definition"
  ELSE IF ~MR!SameElement(D(e.sum2), D(e.sum)) THEN "same_sum_computed_twice_differs"
  ELSE IF ~MR!SameElement(D(e.back), y) THEN "sum_minus_first_operand_is_not_the_second"
  ELSE IF ~MR!SameElement(D(e.x_after), x) \/ ~MR!SameElement(D(e.y_after), y) THEN "operand_or_earlier_result_was_modified"
  ELSE "ok"

\* C12 for operators with IRRATIONAL symbolic results (norm, normalized, sqrt, ** 0.5): the symbolic result is not encodable,
\* but every way of evaluating it at sigma (positional / keyword call, sympy substitution) must agree, blade by blade, with
\* the numeric operator applied to the substituted operands (assignments are chosen so that the values are rational)
SubstNumVerdict(c, e) ==
  LET ref == CHOOSE i \in DOMAIN e.evals : e.evals[i].how = "numeric_operator"
      R == DecodeMV(c, "rat", e.evals[ref].res)
      bad(ev) == ev.raised # "" \/ ~MR!SameElement(DecodeMV(c, "rat", ev.res), R)
  IN
  IF e.evals[ref].raised # "" THEN "ok"                     \* outside the domain of the numeric operator
  ELSE IF \E i \in DOMAIN e.evals : e.evals[i].how = "call_positional" /\ bad(e.evals[i]) THEN "positional_call_differs_from_numeric_operator"
  ELSE IF \E i \in DOMAIN e.evals : e.evals[i].how = "call_keyword" /\ bad(e.evals[i]) THEN "keyword_call_differs_from_numeric_operator"
  ELSE IF \E i \in DOMAIN e.evals : e.evals[i].how = "subs" /\ bad(e.evals[i]) THEN "sympy_subs_differs_from_numeric_operator"
  ELSE "ok"

Verdict(e) ==
  IF ~EventWF(e) THEN "result_not_well_formed" ELSE
  CASE e.kind = "op" -> OpEventVerdict(CC, e)
    [] e.kind = "lawrp" -> LawRpVerdict(CC, e)
    [] e.kind = "law3" -> Law3Verdict(CC, e)
    [] e.kind = "law" -> LawVerdict(CC, e)
    [] e.kind = "cert" -> CertVerdict(CC, e)
    [] e.kind = "resolve" -> (IF e.container # e.expected_container THEN "sequence_operand_did_not_yield_the_sequence_of_results"
                               ELSE OpEventVerdict(CC, e))
    [] e.kind = "bcast" -> BcastVerdict(CC, e)
    [] e.kind = "getitem" -> GetItemVerdict(e)
    [] e.kind = "setitem" -> SetItemVerdict(e)
    [] e.kind = "itermv" -> IterMvVerdict(e)
    [] e.kind = "relabel" -> RelabelVerdict(e)
    [] e.kind = "mix" -> MixVerdict(e)
    [] e.kind = "subst" -> SubstVerdict(CC, e)
    [] e.kind = "substnum" -> SubstNumVerdict(CC, e)
    [] e.kind = "call" -> CallEventVerdict(CC, e)
    [] e.kind = "opc" -> OpEventVerdict(Compile(BitCfg(e.u)), e)
    [] OTHER -> "unknown_event_kind"

Init == l = 2
Next == /\ l <= Len(Trace)
        /\ LET v == Verdict(Trace[l]) IN
             IF v = "ok" THEN TRUE ELSE PrintT(<<"REJECT", Trace[l].id, v>>)
        /\ l' = l + 1
Spec == Init /\ [][Next]_l
\* acceptance: every line consumed (checked by the harness from the state count and by
\* this postcondition: the diameter counts the initial state plus one state per event)
AllConsumed == TLCGet("stats").diameter = Len(Trace)
=============================================================================
