------------------------------ MODULE TraceOps ------------------------------
(***************************************************************************)
(* Trace validation of recorded operator applications (code -> spec).      *)
(*                                                                         *)
(* The trace is an ndjson file (IOEnv.TRACE_FILE).  Line 1 is the header   *)
(*   {kind:"cfg", u: <user-level configuration>}                            *)
(* every other line one event of the real library:                          *)
(*   {id, kind:"op", op, ring, args:[{keys,coefs}...], params:[...],        *)
(*    raised, res:{keys,coefs}}                                              *)
(* Coefficients are polynomials over Z in formal indeterminates            *)
(* (ring "poly": [[c,[vars]]...]) or quotients of two (ring "rat":          *)
(* {n:..,d:..}); an event therefore decides its key pattern for ALL values. *)
(* Every event is judged by OpVerdict of the reference semantics; Next     *)
(* always advances, rejections are printed, so one rejection never hides   *)
(* the rest of the trace.                                                    *)
(***************************************************************************)
EXTENDS AlgebraModel, PolyRing, Json, IOUtils

MR == INSTANCE MultivectorRef WITH
        CZero <- RZero, COne <- ROne, CAdd <- RAdd, CMul <- RMul, CNeg <- RNeg,
        CEq <- REq, CScale <- RScale

Trace == ndJsonDeserialize(IOEnv.TRACE_FILE)
U == Trace[1].u
CC == Compile(BitCfg(U))

VARIABLE l

DecodeCoef(ring, j) == IF ring = "poly" THEN RFromPoly(PFromSeq(j)) ELSE RFromJson(j)
DecodeCoefs(ring, js) == [i \in DOMAIN js |-> DecodeCoef(ring, js[i])]
DecodeMV(c, ring, mv) == MR!FromKV(c.d, mv.keys, DecodeCoefs(ring, mv.coefs))

OpEventVerdict(c, e) ==
  IF \E i \in DOMAIN e.args : ~MR!StoredOK(c, e.args[i].keys, e.args[i].coefs)
  THEN "operand_not_well_formed"
  ELSE MR!OpVerdict(c, e.op, [i \in DOMAIN e.args |-> DecodeMV(c, e.ring, e.args[i])],
                    e.params, e.raised, e.res.keys, DecodeCoefs(e.ring, e.res.coefs),
                    DecodeMV(c, e.ring, e.witness))

Verdict(e) ==
  CASE e.kind = "op" -> OpEventVerdict(CC, e)
    [] e.kind = "opc" -> OpEventVerdict(Compile(BitCfg(e.u)), e)
    [] OTHER -> "unknown_event_kind"

Init == l = 2
Next == /\ l <= Len(Trace)
        /\ LET v == Verdict(Trace[l]) IN
             IF v = "ok" THEN TRUE ELSE PrintT(<<"REJECT", Trace[l].id, v>>)
        /\ l' = l + 1
Spec == Init /\ [][Next]_l
\* acceptance: every line consumed (checked by the harness from the state count and by
\* this postcondition: the diameter counts the initial state plus one state per event)
AllConsumed == TLCGet("stats").diameter = Len(Trace)
=============================================================================
