------------------------------ MODULE TraceOps ------------------------------
(***************************************************************************)
(* Trace validation of recorded operator applications (code -> spec).      *)
(*                                                                         *)
(* The trace is an ndjson file (IOEnv.TRACE_FILE).  Line 1 is the header   *)
(*   {kind:"cfg", u: <user-level configuration>}                            *)
(* every other line one event of the real library:                          *)
(*   {id, kind:"op", op, ring, args:[{keys,coefs}...], params:[...],        *)
(*    raised, res:{keys,coefs}}                                              *)
(* Coefficients are polynomials over Z in formal indeterminates            *)
(* (ring "poly": [[c,[vars]]...]) or quotients of two (ring "rat":          *)
(* {n:..,d:..}); an event therefore decides its key pattern for ALL values. *)
(* Every event is judged by OpVerdict of the reference semantics; Next     *)
(* always advances, rejections are printed, so one rejection never hides   *)
(* the rest of the trace.                                                    *)
(***************************************************************************)
EXTENDS AlgebraModel, PolyRing, Json, IOUtils

MR == INSTANCE MultivectorRef WITH
        CZero <- RZero, COne <- ROne, CAdd <- RAdd, CMul <- RMul, CNeg <- RNeg,
        CEq <- REq, CScale <- RScale

Trace == ndJsonDeserialize(IOEnv.TRACE_FILE)
U == Trace[1].u
CC == Compile(BitCfg(U))

VARIABLE l

DecodeCoef(ring, j) == IF ring = "poly" THEN RFromPoly(PFromSeq(j)) ELSE RFromJson(j)
DecodeCoefs(ring, js) == [i \in DOMAIN js |-> DecodeCoef(ring, js[i])]
DecodeMV(c, ring, mv) == MR!FromKV(c.d, mv.keys, DecodeCoefs(ring, mv.coefs))

OpEventVerdict(c, e) ==
  IF \E i \in DOMAIN e.args : ~MR!StoredOK(c, e.args[i].keys, e.args[i].coefs)
  THEN "operand_not_well_formed"
  ELSE MR!OpVerdict(c, e.op, [i \in DOMAIN e.args |-> DecodeMV(c, e.ring, e.args[i])],
                    e.params, e.raised, e.res.keys, DecodeCoefs(e.ring, e.res.coefs),
                    DecodeMV(c, e.ring, e.witness))

\* JSON program tree -> record tree with decoded constants
RECURSIVE DecodeTree(_, _)
DecodeTree(ring, j) ==
  IF j.n = "arg" THEN [n |-> "arg", i |-> j.i]
  ELSE IF j.n = "num" THEN [n |-> "num", v |-> DecodeCoef(ring, j.v)]
  ELSE [n |-> j.n, c |-> [i \in DOMAIN j.c |-> DecodeTree(ring, j.c[i])], p |-> j.p]

SameStored(a, b) == a.keys = b.keys /\ a.coefs = b.coefs

(***************************************************************************)
(* A call made in the middle of a history on a long-lived algebra (C09,    *)
(* C10, C11, C13): besides the value clause of the operator,                *)
(*   fresh      the same call on a freshly created algebra gave the same   *)
(*              element (or the same exception)                              *)
(*   frame      no operand and no previously returned multivector changed   *)
(*   program    for a registered function: value = Sem(program)(args) and   *)
(*              = the plain python function (direct)                         *)
(***************************************************************************)
CallEventVerdict(c, e) ==
  LET args == [i \in DOMAIN e.args |-> DecodeMV(c, e.ring, e.args[i])]
      res == DecodeMV(c, e.ring, e.res)
      v1 == IF e.op = "prog" THEN
               (IF e.raised # "" THEN (IF e.mayraise THEN "ok" ELSE "registered_function_raised")
                ELSE IF ~MR!StoredOK(c, e.res.keys, e.res.coefs) THEN "result_not_well_formed"
                ELSE IF e.hasdirect /\ ~MR!SameElement(res, DecodeMV(c, e.ring, e.direct)) THEN "registered_differs_from_plain_function"
                ELSE IF e.hastree /\ ~MR!SameElement(res, MR!EvalTree(c, DecodeTree(e.ring, e.tree), args)) THEN "registered_differs_from_semantics_of_program"
                ELSE "ok")
            ELSE OpEventVerdict(c, e)
  IN
  IF v1 # "ok" THEN v1
  ELSE IF e.hasfresh /\ e.fresh.raised # e.raised THEN "exception_differs_from_fresh_algebra"
  ELSE IF e.hasfresh /\ e.raised = "" /\ ~MR!SameElement(res, DecodeMV(c, e.ring, e.fresh.res)) THEN "value_differs_from_fresh_algebra"
  ELSE IF \E i \in DOMAIN e.before : ~SameStored(e.before[i], e.after[i]) THEN "operand_or_earlier_result_was_modified"
  ELSE "ok"

Verdict(e) ==
  CASE e.kind = "op" -> OpEventVerdict(CC, e)
    [] e.kind = "call" -> CallEventVerdict(CC, e)
    [] e.kind = "opc" -> OpEventVerdict(Compile(BitCfg(e.u)), e)
    [] OTHER -> "unknown_event_kind"

Init == l = 2
Next == /\ l <= Len(Trace)
        /\ LET v == Verdict(Trace[l]) IN
             IF v = "ok" THEN TRUE ELSE PrintT(<<"REJECT", Trace[l].id, v>>)
        /\ l' = l + 1
Spec == Init /\ [][Next]_l
\* acceptance: every line consumed (checked by the harness from the state count and by
\* this postcondition: the diameter counts the initial state plus one state per event)
AllConsumed == TLCGet("stats").diameter = Len(Trace)
=============================================================================
