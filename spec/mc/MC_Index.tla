------------------------------ MODULE MC_Index ------------------------------
(* IndexModel!MeetsContract for every target of <= MaxKeys keys x <= MaxN entries, every addressed position sequence, *)
(* both containers and every mix of number / array items taken from a multivector.                                     *)
EXTENDS IndexModel, TLC
CONSTANTS MaxKeys, MaxN
VARIABLE st
Seqs(S, n) == [1 .. n -> S]
Init == st = [phase |-> "root"]
Next == \/ st.phase = "root" /\ \E nk \in 1 .. MaxKeys : \E n \in 1 .. MaxN : \E m \in 1 .. n :
              \E pos \in {q \in Seqs(1 .. n, m) : \A a, b \in 1 .. m : a # b => q[a] # q[b]} :
              \E cont \in {"list", "ndarray"} : \E kinds \in Seqs({"s", "a"}, nk) :
              st' = [phase |-> "case", cont |-> cont, nk |-> nk, n |-> n, pos |-> pos, kinds |-> kinds]
Spec == Init /\ [][Next]_st
\* distinct recognisable values: before = 100 k + j, assigned = 10 k (number) or 10 k + p (array item)
Vals(s) == [k \in 1 .. s.nk |-> [j \in 1 .. s.n |-> 100 * k + j]]
Rhs(s) == [k \in 1 .. s.nk |-> IF s.kinds[k] = "s" THEN <<"s", 10 * k>> ELSE <<"a", [p \in 1 .. Len(s.pos) |-> 10 * k + p]>>]
InvContract == st.phase = "case" => MeetsContract(st.cont, Vals(st), st.pos, Rhs(st))
==============================================================================
