SPECIFICATION Spec
CONSTANT KwRule = "all"
INVARIANT InvContract
CHECK_DEADLOCK FALSE
