\* ordered names, two threads, wrapper
SPECIFICATION Spec
CONSTANTS Threads = {t1, t2}
          Wrapper = TRUE
          NameKey = "ordered"
          CallSet <- CallsThr
VIEW View
INVARIANT TypeOK
INVARIANT DispatchExact
INVARIANT PublishedBeforeCached
PROPERTY CacheMonotone
PROPERTY FailAtomic
CHECK_DEADLOCK FALSE
