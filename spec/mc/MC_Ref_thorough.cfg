SPECIFICATION Spec
CONSTANTS MaxD = 4
          MaxDSpell = 3
INVARIANT InvWellFormed
INVARIANT InvRewriting
INVARIANT InvClifford
INVARIANT InvLemmas
CHECK_DEADLOCK FALSE
