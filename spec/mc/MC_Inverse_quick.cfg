SPECIFICATION Spec
CONSTANTS MaxD = 3
          Sigs = "all"
          MaxBlades <- MB_quick
          Vals <- Vals_quick
INVARIANT InvHitzer
INVARIANT InvShirokov
INVARIANT InvAgree
INVARIANT InvZeroDen
CHECK_DEADLOCK FALSE
