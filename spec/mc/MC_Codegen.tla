----------------------------- MODULE MC_Codegen -----------------------------
(* CodegenModel refines MultivectorRef on all basis-blade pairs, for all default-basis signatures
   d <= MaxD and all spelled configurations d <= MaxDSpell (two-level choice, see MC_Ref). *)
EXTENDS CodegenModel
CONSTANTS MaxD, MaxDSpell
VARIABLE cfg
Sigs(d) == [1 .. d -> {-1, 0, 1}]
SpellingsOf(d, B) == LET S == Bits(d, B) n == Cardinality(S) IN {f \in [1 .. n -> S] : Range(f) = S}
RECURSIVE SpellTables(_, _)
SpellTables(d, B) == IF B < 0 THEN {<<>>} ELSE {Append(t, s) : t \in SpellTables(d, B - 1), s \in SpellingsOf(d, B)}
Root == [d |-> -1, phase |-> "root"]
Init == cfg = Root
Ticket == cfg.phase = "root" /\
          \/ \E d \in 0 .. MaxD : \E s \in Sigs(d) : cfg' = [d |-> -1, phase |-> "ticket", kind |-> "default", dd |-> d, sig |-> s]
          \/ \E d \in 0 .. MaxDSpell : \E s \in Sigs(d) : cfg' = [d |-> -1, phase |-> "ticket", kind |-> "spelled", dd |-> d, sig |-> s]
PickDefault == cfg.phase = "ticket" /\ cfg.kind = "default" /\ cfg' = [phase |-> "cfg"] @@ DefaultCfg(cfg.dd, cfg.sig)
PickSpelled == cfg.phase = "ticket" /\ cfg.kind = "spelled" /\
               \E t \in SpellTables(cfg.dd, Pow2(cfg.dd) - 1) :
                  cfg' = [phase |-> "cfg", d |-> cfg.dd, sig |-> cfg.sig, spell |-> t, order |-> DefaultOrder(cfg.dd)]
Next == Ticket \/ PickDefault \/ PickSpelled
Spec == Init /\ [][Next]_cfg
InvCodegenRefinement == cfg.d >= 0 => CodegenRefinement(Compile(cfg))
=============================================================================
