--------------------------- MODULE MC_RatPolynomial ---------------------------
(* RationalPolynomial part of PolynomialModel explored as a state machine over pairs (a, b): a step replaces a by
   a+b, a*b, -a or 1/a and picks a fresh b; invariants: the transcribed operators with their shortcuts are homomorphisms
   for the denotation, keep numerator / denominator well formed with a non-zero denominator, zero tests exact. *)
EXTENDS PolynomialModel
CONSTANTS MaxTerms, MaxDegree, MaxCoef
VARIABLE a
I(n) == <<n, 1>>
V(k) == <<<<I(1), k>>>>
Mono(c, vs) == <<<<I(c)>> \o vs>>
One == POne1
RBase == { RP(<<>>, One), RP(One, One), RP(<<<<I(2)>>>>, One), RP(V(1), One), RP(V(2), One), RP(One, V(1)), RP(Mono(1, <<1, 1>>), One),
           RP(One, Mono(1, <<1, 1>>)), RP(Mono(2, <<1, 2>>), Mono(3, <<2>>)), RP(<<<<I(1)>>, <<I(1), 1>>>>, One),
           RP(V(1), <<<<I(1)>>, <<I(1), 2>>>>), RP(<<<<I(-1), 2>>>>, V(1)), RP(Mono(1, <<1, 1, 2>>), Mono(1, <<1, 2, 2>>)) }
SmallP(x) == Len(x) <= MaxTerms /\ \A i \in DOMAIN x : Len(x[i]) - 1 <= MaxDegree /\ Coef(x[i])[1] \in -MaxCoef .. MaxCoef /\ Coef(x[i])[2] \in 1 .. 2
Small(r) == SmallP(r.numer) /\ SmallP(r.denom)
Init == a \in RBase
Step(r) == Small(r) /\ a' = r
Next == \/ Step(RatNeg(a)) \/ (~RatIsZero(a) /\ Step(RatInv(a)))
        \/ \E b \in RBase : Step(RatAdd(a, b)) \/ Step(RatMul(a, b)) \/ Step(RatMul(b, a)) \/ Step(RatAdd(b, a))
Spec == Init /\ [][Next]_a
InvHom == \A b \in RBase : RatHomomorphism(a, b) /\ RatHomomorphism(b, a)
InvZero == RatZeroTests(a) /\ RatZeroTests(RatAdd(a, RatNeg(a))) /\ \A b \in RBase : RatZeroTests(RatAdd(RatMul(a, b), RatNeg(RatMul(b, a))))
InvWF == RatWellFormed(a) /\ \A b \in RBase : RatWellFormed(RatAdd(a, b)) /\ RatWellFormed(RatMul(a, b))
==============================================================================
