SPECIFICATION Spec
CONSTANTS MaxD = 3
          NegKind = "N2"
INVARIANT InvFaithful
CHECK_DEADLOCK FALSE
