SPECIFICATION Spec
CONSTANT Access = "getitem"
INVARIANT LazyTablesPure
INVARIANT TableCorrect
PROPERTY EntriesStable
CHECK_DEADLOCK FALSE
