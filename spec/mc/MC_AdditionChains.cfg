SPECIFICATION Spec
CONSTANT MaxLimit = 40
INVARIANT InvDone
INVARIANT InvLoop
PROPERTY Terminates
CHECK_DEADLOCK FALSE
