SPECIFICATION Spec
CONSTANTS CoefKey = "scalar"
          PowNeg = "ignored"
          Depth2 = FALSE
INVARIANT InvTapeFaithful
CHECK_DEADLOCK FALSE
