\* one thread, registered functions resolve callees by name: DispatchExact expected to FAIL (F1)
SPECIFICATION Spec
CONSTANTS Threads = {t1}
          Wrapper = FALSE
          NameKey = "set"
          CallSet <- CallsReg
VIEW View
INVARIANT TypeOK
INVARIANT DispatchExact
INVARIANT PublishedBeforeCached
PROPERTY CacheMonotone
PROPERTY FailAtomic
CHECK_DEADLOCK FALSE
