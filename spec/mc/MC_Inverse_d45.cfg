SPECIFICATION Spec
CONSTANTS MaxD = 5
          Sigs = "sorted"
          MaxBlades <- MB_d45
          Vals <- Vals_d45
INVARIANT InvHitzer
INVARIANT InvShirokov
INVARIANT InvAgree
INVARIANT InvZeroDen
CHECK_DEADLOCK FALSE
