------------------------------ MODULE MC_Inverse ------------------------------
(***************************************************************************)
(* InverseModel on enumerated operands.  A case is (signature, operand); the *)
(* operands are all integer multivectors with at most MaxBlades[d] stored    *)
(* blades and coefficients from Vals[d] (d <= MaxD).  Two levels (ticket,    *)
(* case) so that the workers share the cases.                                 *)
(***************************************************************************)
EXTENDS InverseModel, TLC
CONSTANTS MaxD, Sigs, MaxBlades, Vals
VARIABLE st

\* instances (cfg files cannot write tuples of sets)
MB_quick == <<1, 2, 3, 2>>
Vals_quick == <<{-1, 1, 2}, {-1, 1, 2}, {-1, 1, 2}, {-1, 1, 2}>>
MB_d45 == <<0, 0, 0, 0, 2, 2>>
Vals_d45 == <<{1}, {1}, {1}, {1}, {-1, 1, 2}, {2}>>
MB_full3 == <<1, 2, 4, 8>>
Vals_full3 == <<{-1, 1, 2}, {-1, 1, 2}, {-1, 1, 2}, {-1, 1}>>
MB_t5 == <<0, 0, 0, 0, 0, 1>>
Vals_t5 == <<{1}, {1}, {1}, {1}, {1}, {2}>>
MB_d6 == <<0, 0, 0, 0, 0, 0, 2>>
Vals_d6 == <<{1}, {1}, {1}, {1}, {1}, {1}, {2}>>

SigsOf(d) == IF Sigs = "all" THEN [1 .. d -> {-1, 0, 1}]
             ELSE IF Sigs = "sorted" THEN {s \in [1 .. d -> {-1, 0, 1}] : \A i \in 1 .. d - 1 : s[i] >= s[i + 1]}     \* one ordering per (p, q, r)
             ELSE {[i \in 1 .. d |-> 1], [i \in 1 .. d |-> -1], [i \in 1 .. d |-> IF i = 1 THEN 0 ELSE 1],
                   [i \in 1 .. d |-> IF i % 2 = 0 THEN -1 ELSE 1], [i \in 1 .. d |-> IF i <= 2 THEN 0 ELSE IF i = d THEN -1 ELSE 1]}   \* "few"
KS(k, S) == IF k = 0 THEN {{}} ELSE IF k = 1 THEN {{a} : a \in S} ELSE IF k = 2 THEN {{p[1], p[2]} : p \in {q \in S \X S : q[1] < q[2]}} ELSE kSubset(k, S)   \* (kSubset refuses 64 elements)
SmallSubsets(d) == UNION {KS(k, Blades(d)) : k \in 0 .. MaxBlades[d + 1]}       \* (never SUBSET Blades(d): 2^32 sets for d = 5)
Dense(d, f) == [B \in Blades(d) |-> IF B \in DOMAIN f THEN f[B] ELSE 0]

Init == st = [phase |-> "root"]
Next == \/ st.phase = "root" /\ \E d \in 0 .. MaxD : \E s \in SigsOf(d) : \E S \in SmallSubsets(d) :
              st' = [phase |-> "ticket", sig |-> s, keys |-> S]
        \/ st.phase = "ticket" /\ \E f \in [st.keys -> Vals[Len(st.sig) + 1]] : st' = [phase |-> "case", sig |-> st.sig, x |-> f]
Spec == Init /\ [][Next]_st

Cfg(sig) == TLCEval(Compile(TLCEval(DefaultCfg(Len(sig), sig))))
X == Dense(Len(st.sig), st.x)
InvHitzer == st.phase = "case" => HitzerOK(Cfg(st.sig), X)
InvShirokov == st.phase = "case" => ShirokovOK(Cfg(st.sig), X)
InvAgree == st.phase = "case" => GeneratorsAgree(Cfg(st.sig), X)
\* den = 0 with a non-zero numerator exhibits a zero divisor: no inverse exists
InvZeroDen == st.phase = "case" => ZeroDenMeansZeroDivisor(Cfg(st.sig), X)
==============================================================================
