------------------------------ MODULE MC_Inverse ------------------------------
(***************************************************************************)
(* InverseModel on enumerated operands.  A case is (signature, operand); the *)
(* operands are all integer multivectors with at most MaxBlades[d] stored    *)
(* blades and coefficients from Vals[d] (d <= MaxD).  Two levels (ticket,    *)
(* case) so that the workers share the cases.                                 *)
(***************************************************************************)
EXTENDS InverseModel, TLC
CONSTANTS MaxD, Sigs, MaxBlades, Vals
VARIABLE st

\* instances (cfg files cannot write tuples of sets)
MB_quick == <<1, 2, 3, 2>>
Vals_quick == <<{-1, 1, 2}, {-1, 1, 2}, {-1, 1, 2}, {-1, 1, 2}>>
MB_d45 == <<0, 0, 0, 0, 2, 2>>
Vals_d45 == <<{1}, {1}, {1}, {1}, {-1, 1, 2}, {-1, 1}>>
MB_full3 == <<1, 2, 4, 8>>
Vals_full3 == <<{-1, 1, 2}, {-1, 1, 2}, {-1, 1, 2}, {-1, 1}>>
MB_d6 == <<0, 0, 0, 0, 0, 0, 2>>
Vals_d6 == <<{1}, {1}, {1}, {1}, {1}, {1}, {-1, 1}>>

SigsOf(d) == IF Sigs = "all" THEN [1 .. d -> {-1, 0, 1}]
             ELSE {s \in [1 .. d -> {-1, 0, 1}] : \A i \in 1 .. d - 1 : s[i] >= s[i + 1]}     \* "sorted": one ordering per (p, q, r)
Operands(d) == UNION {[S -> Vals[d + 1]] : S \in {T \in SUBSET Blades(d) : Cardinality(T) <= MaxBlades[d + 1]}}
Dense(d, f) == [B \in Blades(d) |-> IF B \in DOMAIN f THEN f[B] ELSE 0]

Init == st = [phase |-> "root"]
Next == \/ st.phase = "root" /\ \E d \in 0 .. MaxD : \E s \in SigsOf(d) : \E S \in {T \in SUBSET Blades(d) : Cardinality(T) <= MaxBlades[d + 1]} :
              st' = [phase |-> "ticket", sig |-> s, keys |-> S]
        \/ st.phase = "ticket" /\ \E f \in [st.keys -> Vals[Len(st.sig) + 1]] : st' = [phase |-> "case", sig |-> st.sig, x |-> f]
Spec == Init /\ [][Next]_st

Cfg(sig) == Compile(DefaultCfg(Len(sig), sig))
X == Dense(Len(st.sig), st.x)
InvHitzer == st.phase = "case" => HitzerOK(Cfg(st.sig), X)
InvShirokov == st.phase = "case" => ShirokovOK(Cfg(st.sig), X)
InvAgree == st.phase = "case" => GeneratorsAgree(Cfg(st.sig), X)
\* den = 0 with a non-zero numerator exhibits a zero divisor: no inverse exists
InvZeroDen == st.phase = "case" =>
   LET c == Cfg(st.sig) IN (InvDen(c, X) = 0 /\ ~MI!IsZeroMV(InvNum(c, X))) => MI!IsZeroMV(G(c, X, InvNum(c, X)))
==============================================================================
