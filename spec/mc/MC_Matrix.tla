------------------------------ MODULE MC_Matrix ------------------------------
(* MatrixModel!Faithful for every signature ordering with d <= MaxD (one state per signature). *)
EXTENDS MatrixModel
CONSTANTS MaxD, NegKind
VARIABLE st
Init == st = [phase |-> "root"]
\* two levels so that the workers share the signatures
Next == \/ st.phase = "root" /\ \E d \in 1 .. MaxD : \E s \in [1 .. d -> {-1, 0, 1}] : st' = [phase |-> "ticket", sig |-> s]
        \/ st.phase = "ticket" /\ st' = [phase |-> "sig", sig |-> st.sig]
Spec == Init /\ [][Next]_st
InvFaithful == st.phase = "sig" => Faithful(st.sig)
==============================================================================
