SPECIFICATION Spec
CONSTANTS MaxD = 3
          Sigs = "all"
          MaxBlades <- MB_full3
          Vals <- Vals_full3
INVARIANT InvHitzer
INVARIANT InvShirokov
INVARIANT InvAgree
INVARIANT InvZeroDen
CHECK_DEADLOCK FALSE
