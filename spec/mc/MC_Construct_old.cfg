SPECIFICATION Spec
CONSTANT KwRule = "odd"
INVARIANT InvContract
CHECK_DEADLOCK FALSE
