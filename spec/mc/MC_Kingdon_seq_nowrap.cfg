\* one thread, no wrapper, operators only: the configuration in which today's code is correct
SPECIFICATION Spec
CONSTANTS Threads = {t1}
          Wrapper = FALSE
          NameKey = "set"
          CallSet <- CallsOps
VIEW View
INVARIANT TypeOK
INVARIANT DispatchExact
INVARIANT PublishedBeforeCached
PROPERTY CacheMonotone
PROPERTY GenOnce
PROPERTY FailAtomic
CHECK_DEADLOCK FALSE
