SPECIFICATION Spec
CONSTANTS MaxTerms = 2
          MaxDegree = 2
          MaxCoef = 1
INVARIANT InvHom
INVARIANT InvZero
INVARIANT InvWF
CHECK_DEADLOCK FALSE
