\* one thread, wrapper set, names encode key sets (today): DispatchExact is expected to FAIL (finding F1)
SPECIFICATION Spec
CONSTANTS Threads = {t1}
          Wrapper = TRUE
          NameKey = "set"
          CallSet <- CallsOps
VIEW View
INVARIANT TypeOK
INVARIANT DispatchExact
INVARIANT PublishedBeforeCached
PROPERTY CacheMonotone
PROPERTY FailAtomic
CHECK_DEADLOCK FALSE
