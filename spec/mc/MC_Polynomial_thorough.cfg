SPECIFICATION Spec
CONSTANTS MaxTerms = 3
          MaxDegree = 2
          MaxCoef = 2
          MaxVar = 3
VIEW View
INVARIANT InvWellFormed
INVARIANT InvHomomorphism
INVARIANT InvPreservation
INVARIANT InvZeroTests
CHECK_DEADLOCK FALSE
