\* three threads, small alphabet
SPECIFICATION Spec
CONSTANTS Threads = {t1, t2, t3}
          Wrapper = TRUE
          NameKey = "ordered"
          CallSet <- CallsLive
VIEW View
INVARIANT TypeOK
INVARIANT DispatchExact
INVARIANT PublishedBeforeCached
PROPERTY CacheMonotone
PROPERTY FailAtomic
CHECK_DEADLOCK FALSE
