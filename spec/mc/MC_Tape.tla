------------------------------- MODULE MC_Tape -------------------------------
(***************************************************************************)
(* TapeModel over 2-D algebras: every program of a bounded grammar (depth 1 *)
(* over the operator table incl. numbers on either side, grade selection,   *)
(* coefficient access, powers of both signs; depth 2 by composing a unary   *)
(* or binary operator on top) x argument key patterns.  TapeFaithful must   *)
(* hold for the repaired constants and is refuted for the pinned ones.       *)
(***************************************************************************)
EXTENDS TapeModel
CONSTANTS Depth2
VARIABLE st

Sigs == {<<1, 1>>, <<0, 1>>, <<1, -1>>}
Keys == {<<1, 2>>, <<2, 1>>, <<0, 3>>, <<3>>, <<0, 1, 2, 3>>, <<2>>}
U == {"neg", "reverse", "involute", "conjugate", "hodge", "unhodge", "normsq", "dual", "undual"}
B == {"gp", "op", "ip", "rp", "sw", "proj", "lc", "rc", "sp", "add", "sub"}
A(i) == [n |-> "arg", i |-> i]
Num(k) == [n |-> "num", v |-> RConst(k)]
Node(op, kids, p) == [n |-> op, c |-> kids, p |-> p]
D1 == {Node(u, <<A(1)>>, <<>>) : u \in U}
      \cup {Node(b, <<A(i), A(j)>>, <<>>) : b \in B, i \in {1, 2}, j \in {1, 2}}
      \cup {Node(b, <<Num(3), A(1)>>, <<>>) : b \in {"gp", "add", "sub"}}
      \cup {Node(b, <<A(2), Num(-2)>>, <<>>) : b \in {"gp", "add", "sub"}}
      \cup {Node("grade", <<A(1)>>, <<g>>) : g \in 0 .. 2}
      \cup {Node("coef", <<A(1)>>, <<K>>) : K \in {0, 1, 3}}
      \cup {Node("pow", <<A(1)>>, <<n>>) : n \in {0, 1, 2, 3}}
D2 == {Node(u, <<t>>, <<>>) : u \in {"reverse", "normsq", "hodge"}, t \in D1}
      \cup {Node(b, <<t, A(2)>>, <<>>) : b \in {"gp", "op", "add", "sw"}, t \in D1}
      \cup {Node("gp", <<Node("coef", <<A(1)>>, <<K>>), A(2)>>, <<>>) : K \in {1, 3}}
      \cup {Node("grade", <<t>>, <<1>>) : t \in D1}
NegPow == {Node("pow", <<A(1)>>, <<n>>) : n \in {-1, -2}}

Root == [phase |-> "root"]
Init == st = Root
Ticket == st.phase = "root" /\ \E s \in Sigs : \E k1 \in Keys : st' = [phase |-> "ticket", sig |-> s, k1 |-> k1]
Pick == st.phase = "ticket" /\
        \/ \E t \in (IF Depth2 THEN D1 \cup D2 ELSE D1) : \E k2 \in Keys :
              st' = [phase |-> "case", sig |-> st.sig, tree |-> t, keys |-> <<st.k1, k2>>]
        \/ \E t \in NegPow : Len(st.k1) = 1 /\ st' = [phase |-> "case", sig |-> st.sig, tree |-> t, keys |-> <<st.k1, st.k1>>]
Next == Ticket \/ Pick
Spec == Init /\ [][Next]_st
\* negative powers need an invertible single blade
Applicable == st.tree.n = "pow" /\ st.tree.p[1] < 0 => Sgn(Compile(DefaultCfg(2, st.sig)), st.keys[1][1], st.keys[1][1]) # 0
InvTapeFaithful == st.phase = "case" /\ Applicable => TapeFaithful(Compile(DefaultCfg(2, st.sig)), st.tree, st.keys)
==============================================================================
