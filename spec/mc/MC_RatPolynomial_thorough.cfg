SPECIFICATION Spec
CONSTANTS MaxTerms = 2
          MaxDegree = 2
          MaxCoef = 2
INVARIANT InvHom
INVARIANT InvZero
INVARIANT InvWF
CHECK_DEADLOCK FALSE
