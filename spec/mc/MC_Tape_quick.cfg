SPECIFICATION Spec
CONSTANTS CoefKey = "scalar"
          PowNeg = "inverse"
          Depth2 = FALSE
INVARIANT InvTapeFaithful
CHECK_DEADLOCK FALSE
