SPECIFICATION Spec
CONSTANTS Rule = "broadcast"
          MaxKeys = 3
          MaxN = 4
INVARIANT InvContract
CHECK_DEADLOCK FALSE
