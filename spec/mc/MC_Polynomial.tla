---------------------------- MODULE MC_Polynomial ----------------------------
(***************************************************************************)
(* PolynomialModel explored as a state machine: the state is a pair of     *)
(* polynomial representations (p, q); a step replaces p by p+q, p*q or -p   *)
(* and picks a fresh q from the base set (variables 1, 2, 3 with 1 < 2 < 3  *)
(* standing for names such as a < a1 < b; coefficients 0, 1, -1, 2, 1/2).    *)
(* Invariants on every reachable state: the transcribed operators are       *)
(* homomorphisms for the denotation, preserve the representation invariant, *)
(* and the zero tests are exact.  Every transition is one implementation    *)
(* test of the conformance stage (the state dump is replayed into kingdon). *)
(***************************************************************************)
EXTENDS PolynomialModel
CONSTANTS MaxTerms, MaxDegree, MaxCoef, MaxVar
VARIABLES p, q, last

I(n) == <<n, 1>>
Base == { <<>>, <<<<I(0)>>>>, <<<<I(1)>>>>, <<<<I(-1)>>>>, <<<<I(2)>>>>, <<<<<<1, 2>>>>>>,
          <<<<I(1), 1>>>>, <<<<I(1), 2>>>>, <<<<I(1), 3>>>>, <<<<I(-1), 1>>>>, <<<<I(2), 1, 2>>>>,
          <<<<I(1)>>, <<I(1), 1>>>>,                     \* 1 + a        (a prefix pair: 1 < a)
          <<<<I(1), 1>>, <<I(1), 1, 2>>>>,               \* a + a*a1     (a prefix pair)
          <<<<I(1), 1>>, <<I(-1), 2>>>>,                 \* a - a1
          <<<<I(1), 1, 1>>>> }                           \* a^2
Small(x) == /\ Len(x) <= MaxTerms
            /\ \A i \in DOMAIN x : /\ Len(x[i]) - 1 <= MaxDegree
                                   /\ Coef(x[i])[1] \in -MaxCoef .. MaxCoef /\ Coef(x[i])[2] \in 1 .. 2
                                   /\ \A k \in 2 .. Len(x[i]) : x[i][k] \in 1 .. MaxVar

Init == p \in Base /\ q \in Base /\ last = "init"
Step(op, r) == Small(r) /\ p' = r /\ last' = op /\ q' \in Base
Next == \/ Step("add", PolyAdd(p, q)) \/ Step("mul", PolyMul(p, q)) \/ Step("neg", PolyNeg(p))
        \/ Step("radd", PolyAdd(q, p)) \/ Step("rmul", PolyMul(q, p))
Spec == Init /\ [][Next]_<<p, q, last>>

InvWellFormed == WellFormed(p) /\ WellFormed(q)
InvHomomorphism == Homomorphism(p, q) /\ Homomorphism(q, p)
InvPreservation == Preservation(p, q) /\ Preservation(q, p)
InvZeroTests == ZeroTestsExact(p) /\ ZeroTestsExact(PolyAdd(p, PolyNeg(p))) /\ ZeroTestsExact(PolyAdd(PolyMul(p, q), PolyNeg(PolyMul(q, p))))
View == <<p, q>>
=============================================================================
