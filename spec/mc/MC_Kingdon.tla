----------------------------- MODULE MC_Kingdon -----------------------------
(***************************************************************************)
(* Bounded instances of Kingdon.tla over a 2-D algebra.                     *)
(* Key tuples: K12 = (1,2), K21 = (2,1) (same blades, two storage orders), *)
(* K0 = (0,), KF = (0,1,2,3).  Operators: gp (elementary), reverse          *)
(* (elementary, unary), sw (composite: generating it calls gp, reverse, gp *)
(* on symbolic operands), div on a null vector (generation raises after    *)
(* its sub-generations completed), two registered functions f(x,y) = x*y   *)
(* and g(x) = ~x * x, a symbolic registered function.                       *)
(***************************************************************************)
EXTENDS Integers, Sequences, FiniteSets, TLC, Functions, SequencesExt, Bitwise

CONSTANTS Threads, Wrapper, NameKey, CallSet
VARIABLES cache, numspace, stack, bad, ev, gens

K12 == <<1, 2>>
K21 == <<2, 1>>
K0 == <<0>>
KF == <<0, 1, 2, 3>>
K03 == <<0, 3>>

\* output keys of the geometric product of two key tuples in a non-degenerate 2-D algebra:
\* every blade that receives a term, in canonical (= numeric) order
KOutGP(kx, ky) == SetToSortSeq({kx[i] ^^ ky[j] : i \in DOMAIN kx, j \in DOMAIN ky}, <)

MCKind(op) == IF op \in {"f", "g", "f2"} THEN "registered" ELSE "operator"
\* "f2" is a second registered python function with the same __name__ as "f"
MCStem(op) == IF op = "f2" THEN "f" ELSE op
MCDeps(op, pat) ==
  IF op = "sw" THEN <<<<"gp", <<pat[1], pat[2]>>>>, <<"reverse", <<pat[1]>>>>,
                      <<"gp", <<KOutGP(pat[1], pat[2]), pat[1]>>>>>>
  ELSE IF op = "div" THEN <<<<"conjugate", <<pat[2]>>>>, <<"gp", <<pat[2], pat[2]>>>>>>
  ELSE IF op = "symf" THEN <<<<"gp", <<pat[1], pat[2]>>>>>>
  ELSE <<>>
MCCallees(op, pat) ==
  IF op \in {"f"} THEN <<<<"gp", <<pat[1], pat[2]>>>>>>
  ELSE IF op = "f2" THEN <<<<"op", <<pat[1], pat[2]>>>>>>
  ELSE IF op = "g" THEN <<<<"reverse", <<pat[1]>>>>, <<"gp", <<pat[1], pat[1]>>>>>>
  ELSE <<>>
MCFails(op, pat) == op = "div"

C(op, pat, mode) == [op |-> op, pat |-> pat, mode |-> mode]
\* alphabets (chosen in the cfg)
CallsOps == {C("gp", <<K12, K12>>, "num"), C("gp", <<K21, K12>>, "num"), C("gp", <<K12, K12>>, "sym"),
             C("reverse", <<K12>>, "num"), C("reverse", <<K21>>, "num"),
             C("sw", <<K12, K12>>, "num"), C("div", <<K12, K0>>, "num")}
CallsReg == {C("gp", <<K12, K12>>, "num"), C("gp", <<K21, K12>>, "num"),
             C("f", <<K12, K12>>, "num"), C("f", <<K21, K12>>, "num"),
             C("g", <<K12>>, "num"), C("sw", <<K12, K12>>, "num")}
CallsSameName == {C("f", <<K12, K12>>, "num"), C("f2", <<K12, K12>>, "num"), C("gp", <<K12, K12>>, "num")}
CallsThr == {C("gp", <<K12, K12>>, "num"), C("gp", <<K21, K12>>, "num"), C("sw", <<K12, K12>>, "num"),
             C("f", <<K12, K12>>, "num")}
CallsLive == {C("gp", <<K12, K12>>, "num"), C("gp", <<K21, K12>>, "num"), C("f", <<K12, K12>>, "num"),
              C("div", <<K12, K0>>, "num")}
CallsBig == CallsOps \cup CallsReg \cup {C("symf", <<K12, K21>>, "sym"), C("gp", <<KF, K03>>, "num"),
                                         C("f", <<K12, K21>>, "num")}

K == INSTANCE Kingdon WITH UserCalls <- CallSet, Kind <- MCKind, Stem <- MCStem, Deps <- MCDeps,
                            Callees <- MCCallees, Fails <- MCFails

Spec == K!Spec
FairSpec == K!FairSpec
View == K!view
TypeOK == K!TypeOK
DispatchExact == K!DispatchExact
NoNameClash == K!NoNameClash
NamesStable == K!NamesStable
CacheMonotone == K!CacheMonotone
GenOnce == K!GenOnce
PublishedBeforeCached == K!PublishedBeforeCached
FailAtomic == K!FailAtomic
Returns == K!Returns
=============================================================================
