SPECIFICATION Spec
CONSTANTS MaxD = 6
          Sigs = "few"
          MaxBlades <- MB_d6
          Vals <- Vals_d6
INVARIANT InvShirokov
INVARIANT InvZeroDen
CHECK_DEADLOCK FALSE
