SPECIFICATION Spec
CONSTANTS CoefKey = "scalar"
          PowNeg = "inverse"
          Depth2 = TRUE
INVARIANT InvTapeFaithful
CHECK_DEADLOCK FALSE
