----------------------------- MODULE MC_Algebra -----------------------------
(***************************************************************************)
(* Model checking of AlgebraModel against CliffordRef: for every user-level*)
(* configuration u reachable by the Pick actions,                           *)
(*   - the bit-level configuration denoted by u is well formed,             *)
(*   - kingdon's swap-count sign (transcribed _swap_blades/_compute_sign)  *)
(*     equals the Clifford sign of the named blades           (refinement),*)
(*   - every permuted spelling of every blade gets the permutation parity, *)
(*   - the Clifford relations hold for the named blades.                    *)
(* The reachable states ARE the test cases of the conformance stage: TLC   *)
(* dumps them (-dump) and the harness replays every one into kingdon.       *)
(*                                                                         *)
(* Constants: MaxPQR (p+q+r <= MaxPQR for the (p,q,r) constructor),         *)
(* MaxSigD (all explicit signatures up to that dimension), Starts (start   *)
(* indices; -1 = not given), MaxBasisD (ALL admissible custom bases up to  *)
(* that dimension: generator order x spelling of every blade x order within*)
(* every grade), BasisSigs (signatures used with custom bases).             *)
(***************************************************************************)
EXTENDS AlgebraModel
CONSTANTS MaxPQR, MaxSigD, Starts, MaxBasisD, BasisStarts
VARIABLE u

StartsAll == {-1, 0, 1, 2}      \* -1 = start_index not given (cfg files cannot write -1)
StartsFew == {-1, 0}

Sigs(d) == [1 .. d -> {-1, 0, 1}]
Perms(S) == LET n == Cardinality(S) IN {f \in [1 .. n -> S] : Range(f) = S}
RECURSIVE SeqProduct(_)
\* <<A1,...,An>>  |->  { <<a1,...,an>> : ai \in Ai }
SeqProduct(sets) == IF sets = <<>> THEN {<<>>}
                    ELSE {<<a>> \o t : a \in Head(sets), t \in SeqProduct(Tail(sets))}
PermuteSeq(s) == {[i \in DOMAIN s |-> s[p[i]]] : p \in Perms(DOMAIN s)}
RECURSIVE Flatten(_)
Flatten(ss) == IF ss = <<>> THEN <<>> ELSE Head(ss) \o Flatten(Tail(ss))

\* all name lists of one grade, for a given generator order
GradeLists(genorder, g) ==
  LET names == Range(genorder) IN
  IF g = 1 THEN {[j \in DOMAIN genorder |-> <<genorder[j]>>]}
  ELSE LET subs == SetToSeq({S \in SUBSET names : Cardinality(S) = g})
           spelled == SeqProduct([i \in DOMAIN subs |-> Perms(subs[i])])
       IN  UNION {PermuteSeq(sp) : sp \in spelled}
BasesOf(d, start) ==
  LET names == start .. start + d - 1 IN
  UNION {{Flatten(gl) : gl \in SeqProduct([k \in 1 .. d + 1 |-> GradeLists(go, k - 1)])} : go \in Perms(names)}

Base == [mode |-> "sig", p |-> 0, q |-> 0, r |-> 0, sig |-> <<>>, start |-> -1, basis |-> <<>>]
Root == [mode |-> "root"]
Init == u = Root

\* tickets (level 1) so that the workers share the configurations (level 2)
Ticket == u.mode = "root" /\
   \/ \E n \in 0 .. MaxPQR : \E p, q, r \in 0 .. n : p + q + r = n /\
         u' = [mode |-> "ticket", kind |-> "pqr", p |-> p, q |-> q, r |-> r]
   \/ \E d \in 0 .. MaxSigD : \E s \in Sigs(d) : u' = [mode |-> "ticket", kind |-> "sig", sig |-> s]
   \/ \E d \in 1 .. MaxBasisD : \E st \in BasisStarts : \E s \in Sigs(d) :
         u' = [mode |-> "ticket", kind |-> "basis", n |-> d, st |-> st, sig |-> s]
PickPQR == u.mode = "ticket" /\ u.kind = "pqr" /\
   \E st \in Starts :
      u' = [Base EXCEPT !.mode = "pqr", !.p = u.p, !.q = u.q, !.r = u.r, !.start = st]
PickSig == u.mode = "ticket" /\ u.kind = "sig" /\
   \E st \in Starts : u' = [Base EXCEPT !.sig = u.sig, !.start = st]
PickBasis == u.mode = "ticket" /\ u.kind = "basis" /\
   \E b \in BasesOf(u.n, u.st) : u' = [Base EXCEPT !.sig = u.sig, !.basis = b]
Next == Ticket \/ PickPQR \/ PickSig \/ PickBasis
Spec == Init /\ [][Next]_u

IsCfg == u.mode \in {"pqr", "sig"}
AllSpellings(uu) == LET m == UC(uu) IN UNION {Perms(Range(CanonName(m, B))) : B \in Blades(m.d)}

InvAdmissible == IsCfg => Admissible(u) /\ BitCfgWellFormed(u)
InvSignRefinement == IsCfg => SignRefinement(u)
InvSpellingRefinement == IsCfg => SpellingRefinement(u, AllSpellings(u))
InvClifford == IsCfg => CliffordRelations(BitCfg(u))
InvRelabel == IsCfg => RelabelIsIsomorphism(u)
InvTypeNumber == IsCfg /\ Dim(u) <= 3 => TypeNumberInjectiveOnSets(u)
=============================================================================
