SPECIFICATION Spec
CONSTANTS CoefKey = "blade"
          PowNeg = "inverse"
          Depth2 = TRUE
INVARIANT InvTapeFaithful
CHECK_DEADLOCK FALSE
