SPECIFICATION Spec
CONSTANTS KeyRule = "len"
          Dim = 2
INVARIANT Faithful
PROPERTY DragExact
CHECK_DEADLOCK FALSE
