------------------------------- MODULE MC_Ref -------------------------------
(***************************************************************************)
(* Model checking of the reference layer: for every configuration picked,  *)
(* the Clifford relations, the word-rewriting cross-check and the lemmas   *)
(* of MultivectorRef hold.  Configurations are picked by an ACTION from a  *)
(* root state so that TLC's workers share them.                             *)
(*   MaxD        : default-spelling configurations for all 3^d signatures, *)
(*                 d <= MaxD                                                *)
(*   MaxDSpell   : additionally all spellings of every blade, d <= MaxDSpell*)
(***************************************************************************)
EXTENDS CliffordRef, TLC
CONSTANTS MaxD, MaxDSpell
VARIABLE cfg

MI == INSTANCE MultivectorRef WITH
        CZero <- 0, COne <- 1, CAdd <- LAMBDA a, b : a + b, CMul <- LAMBDA a, b : a * b,
        CNeg <- LAMBDA a : 0 - a, CEq <- LAMBDA a, b : a = b, CScale <- LAMBDA k, a : k * a

Sigs(d) == [1 .. d -> {-1, 0, 1}]
\* all spellings of one blade: the injective sequences over its generators
SpellingsOf(d, B) == LET S == Bits(d, B) n == Cardinality(S)
                     IN  {f \in [1 .. n -> S] : Range(f) = S}
RECURSIVE SpellTables(_, _)
\* all spelling tables for blades 0..B
SpellTables(d, B) ==
  IF B < 0 THEN {<<>>}
  ELSE {Append(t, s) : t \in SpellTables(d, B - 1), s \in SpellingsOf(d, B)}

\* Two-level choice: the root state has one successor per (d, signature, kind) ticket,
\* each ticket state is expanded (and its successors' invariants evaluated) by whichever
\* worker dequeues it.  A single-level choice would be evaluated by one worker only.
Root == [d |-> -1, phase |-> "root"]
Init == cfg = Root
Ticket == cfg.phase = "root" /\
          \/ \E d \in 0 .. MaxD : \E s \in Sigs(d) :
                cfg' = [d |-> -1, phase |-> "ticket", kind |-> "default", dd |-> d, sig |-> s]
          \/ \E d \in 0 .. MaxDSpell : \E s \in Sigs(d) :
                cfg' = [d |-> -1, phase |-> "ticket", kind |-> "spelled", dd |-> d, sig |-> s]
PickDefault == cfg.phase = "ticket" /\ cfg.kind = "default" /\ cfg' = [phase |-> "cfg"] @@ DefaultCfg(cfg.dd, cfg.sig)
PickSpelled == cfg.phase = "ticket" /\ cfg.kind = "spelled" /\
               \E t \in SpellTables(cfg.dd, Pow2(cfg.dd) - 1) :
                  cfg' = [phase |-> "cfg", d |-> cfg.dd, sig |-> cfg.sig, spell |-> t, order |-> DefaultOrder(cfg.dd)]
Next == Ticket \/ PickDefault \/ PickSpelled
Spec == Init /\ [][Next]_cfg

Picked == cfg.d >= 0
InvWellFormed == Picked => WellFormedCfg(cfg)
InvRewriting == Picked => ClosedFormIsRewriting(cfg) /\ NameIsOrderedProduct(cfg)
InvClifford == Picked => CliffordRelations(cfg)
InvLemmas == Picked => MI!RefLemmas(Compile(cfg)) /\ BitwiseIsSetwise(cfg.d)
=============================================================================
