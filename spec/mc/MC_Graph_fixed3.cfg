SPECIFICATION Spec
CONSTANTS KeyRule = "len_and_order"
          Dim = 3
INVARIANT Faithful
PROPERTY DragExact
CHECK_DEADLOCK FALSE
