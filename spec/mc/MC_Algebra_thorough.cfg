SPECIFICATION Spec
CONSTANTS MaxPQR = 5
          MaxSigD = 4
          Starts <- StartsAll
          MaxBasisD = 2
          BasisStarts = {0, 1}
INVARIANT InvAdmissible
INVARIANT InvSignRefinement
INVARIANT InvSpellingRefinement
INVARIANT InvClifford
INVARIANT InvRelabel
INVARIANT InvTypeNumber
CHECK_DEADLOCK FALSE
