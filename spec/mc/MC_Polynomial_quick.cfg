SPECIFICATION Spec
CONSTANTS MaxTerms = 2
          MaxDegree = 2
          MaxCoef = 2
          MaxVar = 2
VIEW View
INVARIANT InvWellFormed
INVARIANT InvHomomorphism
INVARIANT InvPreservation
INVARIANT InvZeroTests
CHECK_DEADLOCK FALSE
