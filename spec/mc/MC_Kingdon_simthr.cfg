\* simulation with two threads: interleavings of the atomic steps, replayed through the cooperative scheduler
SPECIFICATION Spec
CONSTANTS Threads = {t1, t2}
          Wrapper = TRUE
          NameKey = "ordered"
          CallSet <- CallsThr
INVARIANT DispatchExact
CHECK_DEADLOCK FALSE
