SPECIFICATION Spec
CONSTANTS MaxD = 2
          NegKind = "P2"
INVARIANT InvFaithful
CHECK_DEADLOCK FALSE
