----------------------------- MODULE MC_Construct -----------------------------
(***************************************************************************)
(* ConstructModel: the transcribed MultiVector.__new__ meets the contract for *)
(* every input of the bounded space: 2-D default and custom (e21) bases with   *)
(* every ordered key tuple as keys/values, as names, as a mapping; keyword      *)
(* blades with canonical and permuted spellings (3-D: all six spellings of the  *)
(* trivector, so that EVEN permutations occur); grade-restricted and full value *)
(* lists; graded mode; and the four kinds of inconsistent input, which must     *)
(* raise.  KwRule = "odd" (the pinned code) is refuted.                          *)
(***************************************************************************)
EXTENDS ConstructModel
VARIABLE st

Perms(S) == LET n == Cardinality(S) IN {f \in [1 .. n -> S] : Range(f) = S}
Base == [mode |-> "sig", p |-> 0, q |-> 0, r |-> 0, sig |-> <<1, 1>>, start |-> -1, basis |-> <<>>]
U2 == Base
U2c == [Base EXCEPT !.basis = <<<<>>, <<1>>, <<2>>, <<2, 1>>>>]
U3 == [Base EXCEPT !.sig = <<1, 1, 1>>]
Val(i) == <<2, 3, 5, 7, 11, 13, 17, 19>>[i]
KeyTuples2 == UNION {Perms(S) : S \in SUBSET (0 .. 3)}
Inp == [items |-> <<>>, hasvals |-> FALSE, vals |-> <<>>, ismap |-> FALSE, haskeys |-> FALSE, keys |-> <<>>,
        hasgrades |-> FALSE, grades |-> <<>>, graded |-> FALSE]
Case(u, inp, supplied, valid) == [phase |-> "case", u |-> u, inp |-> inp, supplied |-> supplied, valid |-> valid]

Root == [phase |-> "root"]
Init == st = Root
Ticket == st.phase = "root" /\ \E u \in {U2, U2c} : \E f \in {"kv", "kvname", "map", "kw", "grades", "full", "bad", "graded"} :
             st' = [phase |-> "ticket", u |-> u, form |-> f]
TicketKw3 == st.phase = "root" /\ st' = [phase |-> "ticket", u |-> U3, form |-> "kw3"]

Pick == st.phase = "ticket" /\
  LET u == st.u  m == UC(u) IN
  \/ st.form = "kv" /\ \E k \in KeyTuples2 :
        st' = Case(u, [Inp EXCEPT !.hasvals = TRUE, !.vals = [i \in DOMAIN k |-> Val(i)], !.haskeys = TRUE, !.keys = [i \in DOMAIN k |-> <<"b", k[i]>>]],
                   [i \in DOMAIN k |-> <<CanonName(m, k[i]), Val(i)>>], TRUE)
  \/ st.form = "kvname" /\ \E k \in KeyTuples2 : k # <<>> /\
        st' = Case(u, [Inp EXCEPT !.hasvals = TRUE, !.vals = [i \in DOMAIN k |-> Val(i)], !.haskeys = TRUE, !.keys = [i \in DOMAIN k |-> <<"n", CanonName(m, k[i])>>]],
                   [i \in DOMAIN k |-> <<CanonName(m, k[i]), Val(i)>>], TRUE)
  \/ st.form = "map" /\ \E k \in KeyTuples2 :
        st' = Case(u, [Inp EXCEPT !.hasvals = TRUE, !.ismap = TRUE, !.vals = [i \in DOMAIN k |-> <<<<"b", k[i]>>, Val(i)>>]],
                   [i \in DOMAIN k |-> <<CanonName(m, k[i]), Val(i)>>], TRUE)
  \/ st.form = "kw" /\ \E k \in KeyTuples2 : k # <<>> /\ \E flip \in BOOLEAN :
        LET sp(i) == IF flip /\ k[i] = 3 THEN <<CanonName(m, 3)[2], CanonName(m, 3)[1]>> ELSE CanonName(m, k[i]) IN
        st' = Case(u, [Inp EXCEPT !.items = [i \in DOMAIN k |-> <<sp(i), Val(i)>>]], [i \in DOMAIN k |-> <<sp(i), Val(i)>>], TRUE)
  \/ st.form = "grades" /\ \E gs \in (SUBSET (0 .. 2)) \ {{}} :
        LET ifg == IndicesForGrades(m, gs) IN
        st' = Case(u, [Inp EXCEPT !.hasvals = TRUE, !.vals = [i \in DOMAIN ifg |-> Val(i)], !.hasgrades = TRUE, !.grades = SetToSortSeq(gs, <)],
                   [i \in DOMAIN ifg |-> <<CanonName(m, ifg[i]), Val(i)>>], TRUE)
  \/ st.form = "full" /\
        st' = Case(u, [Inp EXCEPT !.hasvals = TRUE, !.vals = [i \in 1 .. 4 |-> Val(i)]], [i \in 1 .. 4 |-> <<CanonName(m, m.order[i]), Val(i)>>], TRUE)
  \/ st.form = "graded" /\ \E gs \in (SUBSET (0 .. 2)) \ {{}} : \E complete \in BOOLEAN :
        LET ifg == IndicesForGrades(m, gs)
            ks == IF complete THEN ifg ELSE SubSeq(ifg, 1, Len(ifg) - 1) IN
        \* an incomplete key tuple must be incomplete for ITS OWN grades: drop a blade of a single grade with >= 2 blades
        (complete \/ (Cardinality(gs) = 1 /\ Len(ifg) >= 2)) /\
        st' = Case(u, [Inp EXCEPT !.graded = TRUE, !.hasvals = TRUE, !.vals = [i \in DOMAIN ks |-> Val(i)], !.haskeys = TRUE, !.keys = [i \in DOMAIN ks |-> <<"b", ks[i]>>]],
                   [i \in DOMAIN ks |-> <<CanonName(m, ks[i]), Val(i)>>], complete)
  \/ st.form = "bad" /\
        \/ \E k \in KeyTuples2 : k # <<>> /\            \* length mismatch
              st' = Case(u, [Inp EXCEPT !.hasvals = TRUE, !.vals = [i \in 1 .. Len(k) + 1 |-> Val(i)], !.haskeys = TRUE, !.keys = [i \in DOMAIN k |-> <<"b", k[i]>>]], <<>>, FALSE)
        \/ \E B \in 0 .. 3 : \E g \in 0 .. 2 : g # Popcount(2, B) /\     \* key outside the declared grades
              st' = Case(u, [Inp EXCEPT !.hasvals = TRUE, !.vals = <<5>>, !.haskeys = TRUE, !.keys = <<<<"b", B>>>>, !.hasgrades = TRUE, !.grades = <<g>>], <<>>, FALSE)
        \/ \E g \in {3, 4, -1} :                                          \* invalid grade
              st' = Case(u, [Inp EXCEPT !.hasvals = TRUE, !.vals = <<1>>, !.hasgrades = TRUE, !.grades = <<g>>], <<>>, FALSE)
  \/ st.form = "kw3" /\ \E sp \in Perms({1, 2, 3}) : \E other \in {<<>>, <<1>>, <<2, 1>>, <<1, 3>>} :
        LET its == IF other = <<>> THEN <<<<sp, 5>>>> ELSE <<<<sp, 5>>, <<other, 7>>>> IN
        st' = Case(U3, [Inp EXCEPT !.items = its], its, TRUE)
Next == Ticket \/ TicketKw3 \/ Pick
Spec == Init /\ [][Next]_st
InvContract == st.phase = "case" =>
   LET m == UC(st.u) IN MeetsContract(m, Compile(BitCfgM(m)), st.inp, st.supplied, st.valid)
==============================================================================
