\* ordered names (the repaired naming): everything holds
SPECIFICATION Spec
CONSTANTS Threads = {t1}
          Wrapper = TRUE
          NameKey = "ordered"
          CallSet <- CallsBig
VIEW View
INVARIANT TypeOK
INVARIANT DispatchExact
INVARIANT PublishedBeforeCached
PROPERTY CacheMonotone
PROPERTY FailAtomic
CHECK_DEADLOCK FALSE
PROPERTY GenOnce
