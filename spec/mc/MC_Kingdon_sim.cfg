\* simulation: behaviours (call histories with all internal steps) for replay into the real library
SPECIFICATION Spec
CONSTANTS Threads = {t1}
          Wrapper = TRUE
          NameKey = "ordered"
          CallSet <- CallsBig
INVARIANT DispatchExact
CHECK_DEADLOCK FALSE
