SPECIFICATION Spec
CONSTANTS MaxD = 2
          NegKind = "N2"
INVARIANT InvFaithful
CHECK_DEADLOCK FALSE
