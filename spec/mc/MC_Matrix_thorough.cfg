SPECIFICATION Spec
CONSTANTS MaxD = 4
          NegKind = "N2"
INVARIANT InvFaithful
CHECK_DEADLOCK FALSE
