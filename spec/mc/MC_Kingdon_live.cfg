\* liveness: every call returns or raises (weak fairness on each thread's steps); no state constraint
SPECIFICATION FairSpec
CONSTANTS Threads = {t1, t2}
          Wrapper = TRUE
          NameKey = "ordered"
          CallSet <- CallsLive
PROPERTY Returns
CHECK_DEADLOCK FALSE
