\* two registered functions with one __name__: expected to FAIL (F1b)
SPECIFICATION Spec
CONSTANTS Threads = {t1}
          Wrapper = FALSE
          NameKey = "set"
          CallSet <- CallsSameName
VIEW View
INVARIANT TypeOK
INVARIANT DispatchExact
INVARIANT PublishedBeforeCached
PROPERTY CacheMonotone
PROPERTY FailAtomic
CHECK_DEADLOCK FALSE
