------------------------------ MODULE MC_Graph ------------------------------
(* GraphModel over the 2-D algebra with EVERY ordered key tuple (65) and over 3-D layouts
   (canonical, binary, permuted full, sparse). *)
EXTENDS Integers, Sequences, FiniteSets, TLC, Functions, SequencesExt
CONSTANTS KeyRule, Dim
VARIABLES scene, payload, last
Canon2 == <<0, 1, 2, 3>>
Canon3 == <<0, 1, 2, 4, 3, 5, 6, 7>>
Perms(S) == LET n == Cardinality(S) IN {f \in [1 .. n -> S] : Range(f) = S}
AllKeyTuples2 == UNION {Perms(S) : S \in SUBSET (0 .. 3)}
KeyTuples3 == {Canon3, <<0, 1, 2, 3, 4, 5, 6, 7>>, <<7, 6, 5, 4, 3, 2, 1, 0>>, <<1, 2, 4>>, <<4, 2, 1>>, <<3, 5, 6, 7>>, <<>>, <<0, 7>>}
Points2 == {<<5, 6, 7, 8>>, <<9, 8, 7, 6>>}
Points3 == {<<1, 2, 3, 4, 5, 6, 7, 8>>}
G == INSTANCE GraphModel WITH D <- Dim, Canon <- IF Dim = 2 THEN Canon2 ELSE Canon3,
                              KeyTuples <- IF Dim = 2 THEN AllKeyTuples2 ELSE KeyTuples3,
                              Points <- IF Dim = 2 THEN Points2 ELSE Points3
Spec == G!Spec
Faithful == G!Faithful
DragExact == G!DragExact
=============================================================================
