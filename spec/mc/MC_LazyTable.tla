---------------------------- MODULE MC_LazyTable ----------------------------
EXTENDS Integers, FiniteSets, TLC
CONSTANT Access
VARIABLES table, got
MCKeys == {<<1, 2>>, <<2, 1>>, <<3, 3>>, <<1, 3>>}
MCFactory(k) == IF k[1] > k[2] THEN -1 ELSE IF k[1] = k[2] THEN 0 ELSE 1
L == INSTANCE LazyTable WITH Keys <- MCKeys, Factory <- MCFactory
Spec == L!Spec
LazyTablesPure == L!LazyTablesPure
EntriesStable == L!EntriesStable
TableCorrect == L!TableCorrect
==============================================================================
