-------------------------- MODULE MC_AdditionChains --------------------------
(* The loop machine of AdditionChains.minimal_chains for every limit 1..MaxLimit: it terminates, and at
   termination the chains are valid, complete, prefix closed, and power_supply yields the right powers. *)
EXTENDS AdditionChains
CONSTANT MaxLimit
Init == LInit(MaxLimit)
Spec == Init /\ [][LNext]_lvars /\ WF_lvars(LNext)
InvDone == pc = "done" => ChainsOK(chs, limit) /\ PowerSupplyOK(chs, limit)
\* invariant of the loop: what is stored is always valid and prefix closed
InvLoop == (\A i \in DOMAIN chs : ValidChain(chs[i][2], chs[i][1])) /\ PrefixClosed(chs)
==============================================================================
