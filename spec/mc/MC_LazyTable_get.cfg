SPECIFICATION Spec
CONSTANT Access = "get"
INVARIANT LazyTablesPure
INVARIANT TableCorrect
PROPERTY EntriesStable
CHECK_DEADLOCK FALSE
