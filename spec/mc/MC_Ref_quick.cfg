SPECIFICATION Spec
CONSTANTS MaxD = 3
          MaxDSpell = 2
INVARIANT InvWellFormed
INVARIANT InvRewriting
INVARIANT InvClifford
INVARIANT InvLemmas
CHECK_DEADLOCK FALSE
