SPECIFICATION Spec
CONSTANTS MaxD = 3
          MaxDSpell = 2
INVARIANT InvCodegenRefinement
CHECK_DEADLOCK FALSE
