SPECIFICATION Spec
CONSTANTS Rule = "perkey"
          MaxKeys = 3
          MaxN = 4
INVARIANT InvContract
CHECK_DEADLOCK FALSE
