\* two threads, no wrapper, incl. one registered function
SPECIFICATION Spec
CONSTANTS Threads = {t1, t2}
          Wrapper = FALSE
          NameKey = "set"
          CallSet <- CallsThr
VIEW View
INVARIANT TypeOK
INVARIANT DispatchExact
INVARIANT PublishedBeforeCached
PROPERTY CacheMonotone
PROPERTY FailAtomic
CHECK_DEADLOCK FALSE
