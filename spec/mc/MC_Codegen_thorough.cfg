SPECIFICATION Spec
CONSTANTS MaxD = 5
          MaxDSpell = 3
INVARIANT InvCodegenRefinement
CHECK_DEADLOCK FALSE
